#!/usr/bin/env bash
# Runs the thorough tier of the given checks (default: all) one after the other and prints one summary line per check.
# usage: tools_thorough.sh [Cxx ...]      (meant for: vp run -- ./tools_thorough.sh)
cd "$(dirname "$0")" || exit 2
ids=("$@"); [ ${#ids[@]} -eq 0 ] && ids=(C13 C18 C15 C11 C10 C03 C04 C01 C07 C08 C06 C12 C17 C14 C09 C02 C16 C05)
rc=0
for c in "${ids[@]}"; do
  out=$(./check "$c" --tier thorough 2>&1); r=$?
  echo "$out" | grep -E "^(VIOLATION|KNOWN-FINDING|UNREPRODUCED|  key=|$c tier=)" | cut -c1-400
  [ $r -ne 0 ] && rc=1
  mkdir -p thorough_evidence && cp -f "evidence/$c.json" "thorough_evidence/$c.json" 2>/dev/null
done
exit $rc
