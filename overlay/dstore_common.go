package dstore

import (
	"compress/gzip"
	"context"
	"fmt"
	"io"
	"os"
	"strings"

	"github.com/klauspost/compress/zstd"
)

//
// Common Archive Store
//

type commonStore struct {
	extension       string
	compressionType string
	overwrite       bool

	compressedWriteCallback   func(ctx context.Context, size int)
	uncompressedWriteCallback func(ctx context.Context, size int)
	compressedReadCallback    func(ctx context.Context, size int)
	uncompressedReadCallback  func(ctx context.Context, size int)
}

func (c *commonStore) Overwrite() bool      { return c.overwrite }
func (c *commonStore) SetOverwrite(in bool) { c.overwrite = in }

func (c *commonStore) pathWithExt(base string) string {
	if c.extension != "" {
		return base + "." + c.extension
	}
	return base
}

func commonWalkFrom(store Store, ctx context.Context, prefix, startingPoint string, f func(filename string) (err error)) error {
	if startingPoint != "" && !strings.HasPrefix(startingPoint, prefix) {
		return fmt.Errorf("starting point %q must start with prefix %q", startingPoint, prefix)
	}

	var gatePassed bool
	return store.Walk(ctx, prefix, func(filename string) error {
		if gatePassed {
			return f(filename)
		}
		if filename >= startingPoint {
			gatePassed = true
			return f(filename)
		}
		return nil
	})
}

func pushLocalFile(ctx context.Context, store Store, localFile, toBaseName string) (removeFunc func() error, err error) {
	f, err := os.Open(localFile)
	if err != nil {
		return nil, fmt.Errorf("open file: %w", err)
	}
	defer f.Close()

	objPath := store.ObjectPath(toBaseName)

	err = store.WriteObject(ctx, toBaseName, f)
	if err != nil {
		return nil, fmt.Errorf("writing %q to storage %q: %w", localFile, objPath, err)
	}

	return func() error {
		return os.Remove(localFile)
	}, nil
}

func listFiles(ctx context.Context, store Store, prefix string, max int) (out []string, err error) {
	var count int
	err = store.Walk(ctx, prefix, func(filename string) error {
		count++
		if max >= 0 && count > max {
			return StopIteration
		}

		out = append(out, filename)

		return nil
	})
	if err != nil {
		return nil, err
	}
	return
}

// VerifWriteFault (verif overlay) is asked before every object write with the path being written (the temporary file of
// the local store, else the object name); when it answers true the write consumes its body and fails, as an upload that
// breaks at commit time does. Nil in every build that does not set it.
var VerifWriteFault func(path string) bool

func (c *commonStore) compressedCopy(ctx context.Context, destination io.Writer, source io.Reader) error {
	if hook := VerifWriteFault; hook != nil {
		path := FileNameFromContext(ctx)
		if f, ok := destination.(interface{ Name() string }); ok {
			path = f.Name()
		}
		if hook(path) {
			io.Copy(io.Discard, source)
			return fmt.Errorf("verif: injected object-store failure while writing %s", path)
		}
	}
	// Wrap the writer with the uncompressed write callback if it exists
	if c.compressedWriteCallback != nil {
		destination = &callbackWriter{w: destination, callback: c.compressedWriteCallback, ctx: ctx}
	}

	var dest io.Writer
	switch c.compressionType {
	case "gzip":
		gw := gzip.NewWriter(destination)
		if c.uncompressedWriteCallback != nil {
			dest = &callbackWriter{w: gw, callback: c.uncompressedWriteCallback, ctx: ctx}
		} else {
			dest = gw
		}
		if _, err := io.Copy(dest, source); err != nil {
			return err
		}
		if err := gw.Close(); err != nil {
			return err
		}
	case "zstd":
		zstdEncoder, err := zstd.NewWriter(destination, zstd.WithEncoderConcurrency(1), zstd.WithLowerEncoderMem(true), zstd.WithWindowSize(1<<16), zstd.WithEncoderLevel(zstd.SpeedFastest)) // verif overlay: same frame format, no per-write allocation of 16 encoders
		if err != nil {
			return err
		}
		if c.uncompressedWriteCallback != nil {
			dest = &callbackWriter{w: zstdEncoder, callback: c.uncompressedWriteCallback, ctx: ctx}
		} else {
			dest = zstdEncoder
		}
		if _, err := io.Copy(dest, source); err != nil {
			return err
		}
		if err := zstdEncoder.Close(); err != nil {
			return err
		}
	default:
		if c.uncompressedWriteCallback != nil {
			dest = &callbackWriter{w: destination, callback: c.uncompressedWriteCallback, ctx: ctx}
		} else {
			dest = destination
		}
		if _, err := io.Copy(dest, source); err != nil {
			return err
		}
	}
	return nil
}

func (c *commonStore) uncompressedReader(ctx context.Context, reader io.ReadCloser) (out io.ReadCloser, err error) {
	if c.compressedReadCallback != nil {
		reader = &callbackReadCloser{rc: reader, callback: c.compressedReadCallback, ctx: ctx}
	}

	switch c.compressionType {
	case "gzip":
		gzipReader, err := NewGZipReadCloser(reader)
		if err != nil {
			return nil, fmt.Errorf("unable to create gzip reader: %w", err)
		}

		if c.uncompressedReadCallback != nil {
			out = &callbackReadCloser{rc: gzipReader, callback: c.uncompressedReadCallback, ctx: ctx}
		} else {
			out = gzipReader
		}

	case "zstd":
		zstdReader, err := zstd.NewReader(reader, zstd.WithDecoderConcurrency(1), zstd.WithDecoderLowmem(true))
		if err != nil {
			return nil, fmt.Errorf("unable to create zstd reader: %w", err)
		}

		if c.uncompressedReadCallback != nil {
			// verif overlay: also close the underlying file on this path (metered stores: every snapshot load)
			out = wrapReadCloser(&callbackReadCloser{rc: zstdReader.IOReadCloser(), callback: c.uncompressedReadCallback, ctx: ctx}, func() { reader.Close() })
		} else {
			// verif overlay: also close the underlying file (the original leaves it to the finalizer)
			out = wrapReadCloser(zstdReader.IOReadCloser(), func() { reader.Close() })
		}
	default:
		if c.uncompressedReadCallback != nil {
			out = &callbackReadCloser{rc: reader, callback: c.uncompressedReadCallback, ctx: ctx}
		} else {
			out = reader
		}
	}

	return out, nil
}

func wrapReadCloser(orig io.ReadCloser, f func()) io.ReadCloser {
	return &wrappedReadCloser{
		orig:      orig,
		closeHook: f,
	}
}

type wrappedReadCloser struct {
	orig      io.ReadCloser
	closeHook func()
}

func (wrc *wrappedReadCloser) Close() error {
	wrc.closeHook()
	return wrc.orig.Close()
}

func (wrc *wrappedReadCloser) Read(p []byte) (n int, err error) {
	return wrc.orig.Read(p)
}
