package derr

import (
	"context"
	"errors"
	"fmt"
	"time"

	retry "github.com/sethvargo/go-retry"
)

type FatalError struct {
	original error
}

// NewFatalError creates a new [FatalError] struct ensuring `original` error is non-nil
// otherwise this function panics with an error.
func NewFatalError(original error) *FatalError {
	if original == nil {
		panic(fmt.Errorf("the 'original' argument is mandatory"))
	}

	return &FatalError{original}
}

func (r *FatalError) Unwrap() error {
	return r.original
}

func (r *FatalError) Error() string {
	return r.original.Error()
}

// RetryableError can be returned by your handler either [SinkerHandlers#HandleBlockScopedData] or
// [SinkerHandlers#HandleBlockUndoSignal] to notify the sinker that it's a retryable error and the
// stream can continue
type RetryableError struct {
	original error
}

// NewRetryableError creates a new [RetryableError] struct ensuring `original` error is non-nil
// otherwise this function panics with an error.
func NewRetryableError(original error) *RetryableError {
	if original == nil {
		panic(fmt.Errorf("the 'original' argument is mandatory"))
	}

	return &RetryableError{original}
}

func (r *RetryableError) Unwrap() error {
	return r.original
}

func (r *RetryableError) Error() string {
	return fmt.Sprintf("%s (retryable)", r.original)
}

// Retry re-executes the function `f` if it returns an error. If you return a  `derr.FatalError` your function
// will not be retried.
func Retry(retries uint64, f func(ctx context.Context) error) error {
	return RetryContext(context.Background(), retries, f)
}

// RetryContext re-executes the function `f` if it returns an error. If you return a  `derr.FatalError` your function
// will not be retried.
func RetryContext(ctx context.Context, retries uint64, f func(ctx context.Context) error) error {
	return retry.Do(ctx, backoff(retries), func(ctx context.Context) error {
		err := f(ctx)
		if err != nil {
			var fatalError *FatalError
			if errors.As(err, &fatalError) {
				return fatalError.original
			}
			return retry.RetryableError(err)
		}
		return nil
	})
}

func backoff(maxretries uint64) retry.Backoff {
	b := retry.NewFibonacci(100 * time.Millisecond) // verif overlay: 100 ms base instead of 1 s (DESIGN 2.6): five attempts still span 1.2 s, far above the latency of an asynchronous snapshot write on tmpfs
	b = retry.WithMaxRetries(maxretries, b)
	b = retry.WithCappedDuration(500*time.Millisecond, b)
	return b
}
