#!/usr/bin/env python3
"""Generates MANIFEST.json from the table below (single source of truth for commands)."""
import json, sys
ALL = ["C%02d" % i for i in range(1, 19)]
CHECKS = {
 # id: (engine, category, text, note, technique, design_ref)
 "C13": ("E1-enum", "exploration",
         "Bounded-exhaustive: every (segment size, initial, end) in the property's own box, every index and block, against the set-cover definition of tiling; Split/Merged over all range lists in the box; the range predicates and SortAndDedupe against plain arithmetic. The quantifier of the property is finite and is enumerated completely.",
         "Trusts the harness' set-cover reference; arithmetic far from uint64 overflow.",
         "bounded exhaustive enumeration of the real functions (explicit-state, complete within the stated box)", "3/C13"),
}
CHECKS["C08"] = ("E1-enum", "exploration",
  "Bounded-exhaustive over operation sequences: every sequence of <=3 (thorough: 4 with --maxlen) store operations over 3 colliding keys, 2-3 values, ordinals {0,1,2} and delete_prefix, for every policy/value-type, from 3 pre-states, plus sequences with ordinals {0, 2^63, 2^64-1} and long blocks (13-16 operations on one key, every ordinal vector), executed through the real host interface and Flush; every read at every ordinal compared with an independent reference model, and the delta list replayed on the pre-state.",
  "Trusts refmodel.Store as the meaning of the policies; numeric alphabet restricted to exactly representable values.",
  "bounded exhaustive enumeration of operation sequences on the real store against a reference model", "3/C08")
CHECKS["C02"] = ("E1-enum", "exploration",
  "Bounded-exhaustive: every sequence of 4 (thorough 5) one-operation blocks and every 3-block sequence with a two-operation block, over 3 colliding keys and delete_prefix, for every policy/value type x every cut into segments x {full store in memory, full store saved+reloaded}; partials built through the real host interface, saved, reloaded and merged by the real Merge; result compared with the real sequential store and the reference model.",
  "Trusts refmodel.Store; exactly representable numeric alphabet (float addition is not associative in general); in-memory dstore.",
  "bounded exhaustive enumeration of block sequences x segment cuts on the real stores (differential + reference model)", "3/C02")
CHECKS["C09"] = ("E1-enum", "exploration",
  "Bounded-exhaustive: every chain of 2 blocks of <=2 operations (thorough: 3 ordinals, + 3-block chains) for every policy/value type, and for the byte policies over the value alphabet that includes the zero-length value; the log recorded by a real execution is replayed with Reset+ApplyOps on a second store in the same pre-state; deltas compared one by one, content, size, and for partial stores DeletedPrefixes and the result of save+load+merge onto non-empty bases.",
  "Store-level half mirrors the cached branch (Reset + ApplyOps); the second half drives the real exec.RunModule with a real StoreModuleExecutor, live (operations issued in call order) and from a cached log.",
  "bounded exhaustive enumeration of operation-log chains, differential replay-vs-execution on the real stores", "3/C09")
CHECKS["C11"] = ("E4-histx", "model_checking",
  "Explicit-state BFS (depth 5, thorough 6+) over the histories of one real FullKV per policy/value type: apply block / undo with recorded deltas / merge partial / save+load, states deduplicated on content+size+reversible stack, invariant SizeBytes()==sum(len k+len v) in every state; plus exhaustive squash-chain and 12-byte-limit sweeps, a reload sweep (entries whose lengths straddle the 1/2/3-byte length prefixes saved, loaded and then written to at a limit equal to the content), plus the C03 fork histories through the real fork resolver and pipeline with the size oracle after every step. Every transition is a call into the real store.",
  "Menu of 4 blocks and 3 partials per combo; merges clear the reversible stack; limit sweep on canonical encodings only.",
  "explicit-state breadth-first search over store histories on the real implementation + bounded exhaustive sweeps", "2.4 E4, 3/C11")
CHECKS["C10"] = ("E1-enum", "exploration",
  "Bounded-exhaustive: every store content of <=2 (thorough 3) entries over binary key/value alphabets x every deleted-prefix list, written through the real host interface, saved and reloaded as FullKV and PartialKV; boundary sizes; every (start,end,kind,below) over a boundary set of block numbers up to 10 digits and every subset of 8 saved files through the real ListSnapshotFiles; small contents also with <=2 failed object writes (body consumed) and <=1 failed read (half delivered) on the way.",
  "parseFileName is private: the name->range parse is judged through ListSnapshotFiles on a local dstore; most contents go through an in-memory dstore.",
  "bounded exhaustive enumeration of contents, names and snapshot sets on the real save/load/list code", "3/C10")
CHECKS["C18"] = ("E1-enum", "exploration",
  "Bounded-exhaustive cross-decoder check: every exec-out map of <=3 items over boundary field values and every store content of <=3 entries over boundary lengths, encoded by the hand-written encoders and decoded by google.golang.org/protobuf (and vice versa), plus self round-trips of all four store marshallers and the size reported on load, plus every ordered pair and triple of files of different sizes pushed through the same codec one after the other (state kept between calls).",
  "Trusts google.golang.org/protobuf as the wire-format reference.",
  "bounded exhaustive enumeration, differential between hand-written and generated/standard codecs", "3/C18")
CHECKS["C12"] = ("E1-enum", "exploration",
  "Bounded-exhaustive over (mode, segment size, ordered store initial blocks, output initial block, start, stop, final block) on boundary sets, ~8.6M tuples (thorough ~10^8), through the real BuildRequestDetails -> tier1 glue -> BuildTier1RequestPlan -> segmenters, against the covering conditions stated by the property (including: the segments handed to jobs cover the back-filled ranges and stop at the hand-off); plus every cursor shape x resolver answer.",
  "The five lines of glue of Tier1Service.blocks are replicated in the harness (cross-checked against SessionInit of whole-system runs); graphs are k stores + one map.",
  "bounded exhaustive enumeration of request configurations on the real resolution and planning functions", "3/C12")
CHECKS["C14"] = ("E1-enum", "exploration",
  "Bounded-exhaustive over module graphs: every module list of <=3 modules over the full per-module domain (11M graph x output x mode cases; thorough adds n=4 and n=5 on reduced domains, 190M cases) plus 5 families of 6-8 modules, through the real ValidateModules, NewModuleGraph and exec.NewOutputModuleGraph; in dependency order and in reverse declaration order; the staging is judged against an independent DFS closure and the ordering invariants, with a per-case watchdog for termination; for graphs with index modules the executors are built through the real pipeline for every subset of precomputed indices (staging unchanged, one executor per staged module in layer order).",
  "Graph alphabet: one binary, one policy, names a..h; n>=6 only through hand-made families.",
  "bounded exhaustive enumeration of module graphs on the real staging code", "3/C14")
CHECKS["C17"] = ("E1-enum", "exploration",
  "Bounded-exhaustive over structurally arbitrary request messages: the full product of per-field domains (each including 'absent') for one module, restricted products for two and three modules (duplicates, self/mutual/dangling references, cycles through inputs and filters) and the request-level fields (start and stop on both sides of mid-segment initial blocks, in both orders); every message is round-tripped through the wire format and pushed through the real validation, graph construction, hashing, staging, resolution and planning; a panic, a 30 s hang or unbounded heap growth is a violation.",
  "In-process with recover + watchdog + heap guard instead of the designed sub-process sharding.",
  "bounded exhaustive enumeration of request messages on the real validation/graph/plan code, crash and hang oracle", "3/C17")
CHECKS["C06"] = ("E1-enum", "exploration",
  "Bounded-exhaustive over module graphs (n<=3 full domain; thorough n=4) and families: every single-field mutation of every module that keeps the graph valid and every identity-preserving transformation, with the real hash read from exec.NewOutputModuleGraph for every output module; oracle = changed exactly for the mutated module and its descendants (independent DFS), unchanged under renames, alias prefix, unrelated additions, binary re-indexing and (n<=2 and the families) import through the real manifest.Reader at depth 1 and 2 with 1-3 binaries. Two known findings (input swap / retarget inside the ancestor set) are reported as KNOWN-FINDING.",
  "The real manifest.Reader is driven on package files written to a scratch directory for n<=2 graphs and the families (file I/O), the prefix rule alone on the others; unlisted fields carry no expectation.",
  "bounded exhaustive enumeration of graphs x mutations on the real hashing code", "3/C06")
CHECKS["C15"] = ("E1-enum", "exploration",
  "Bounded-exhaustive differential check of the two filter evaluators: every expression string with <=3 (thorough 4) leaves over 3 keys with and/or/juxtaposition/parentheses, quoted keys and a key with a space, x every assignment of key subsets to the 3 blocks of a segment; bitmap evaluation vs per-block keys evaluation, BlockIndex.Skip vs SkipFromKeys, index.File save/load, repeated evaluation and non-mutation of the shared index.",
  "Whole-system half: the index and index2 (two index modules in one job) programs served by the real tier1+tier2 with the index files absent (built in the request), alone, with everything, missing while everything else is present, and present for one of two index modules only; compared with each other and with the per-block reference.",
  "bounded exhaustive enumeration of expressions x key assignments, differential between the two real evaluators", "3/C15")
CHECKS["C04"] = ("E3-sysrun", "exploration",
  "Bounded-exhaustive over request configurations on the whole system (real Tier1Service.blocks, real Tier2Service.processRange in-process, real hashes, scripted modules): mode x segment size x module initial blocks x start x stop x final block on four programs (one whose output module is not executed on most blocks); range, order, duplicates, gaps at the hand-off, cursors, and a resumed request from the cursor of every delivered final block compared with the original suffix; plus the block source shutting down cleanly at every block (tier1 stream and segment jobs) and the response sink panicking on a block of the linear part: an error, never a silently truncated or gapped stream.",
  "Goroutine timing inside one request is not controlled (E2 does that for the scheduler); one effective worker; fork-free chain; derr back-off and dstore zstd options overlaid for speed.",
  "bounded exhaustive enumeration of configurations, each executed on the real tier1+tier2 implementation", "3/C04")
CHECKS["C01"] = ("E3-sysrun", "exploration",
  "Bounded-exhaustive differential check on the whole system: 13 (thorough 18) scripted module graphs x segment size x mode x (start,stop) shapes x final block x cache histories (empty, other range, dev-then-prod, another output module of the same graph, a one-field mutant of an ancestor run first on the same cache, an earlier request followed by the eviction of a file class); every request's non-empty (number,id,payload) stream must equal the linear reference run of the real system and the reference interpreter. Payloads echo store reads and deltas.",
  "Schedule dimension (completion order, workers) is the C05 explorer's; goroutine timing inside a run is not controlled; programs are scripted modules, not compiled WASM.",
  "bounded exhaustive enumeration of configurations and cache histories, differential between strategies of the real system + reference interpreter", "3/C01")
CHECKS["C07"] = ("E3-sysrun", "fault_enumeration",
  "Exhaustive enumeration of cache states: for each (program, request shape) the universe U = files of a complete run + every file each segment job writes when run alone; all 2^n subsets of U (n <= 13 quick, <= 17 thorough; beyond: Gray-code prefix plus every subset with <=3 files present or missing) laid out as the initial cache, plus one torn .tmp leftover per file, plus one failing object write (the n-th of the request, every n); the request is served on each by the real tier1+tier2 and its stream, and every file it leaves behind (decoded), compared with the empty-cache run.",
  "Goroutine timing inside a run is not controlled; files do not vanish during a request; equivalence is per file name, not per set of names.",
  "exhaustive enumeration of crash/eviction states (file subsets + torn writes) on the real implementation, differential against the clean run", "3/C07")
CHECKS["C05"] = ("E2-schedx", "model_checking",
  "Explicit-state model checking of the real scheduler: BFS over every delivery order of the scheduler's own messages and job bodies, on the real Scheduler/Stages/WorkerPool/Walker built by BuildParallelProcessor, with real tier2 jobs and real merges; grid configurations (1-2 store stages x 2-3 segments x 1-2 workers x empty/complete/partial-only/snapshot-hole caches, every subset of the first segment's files of a two-stage graph; thorough: 3 stages x 4 segments, 3 workers), the configurations whose stores all start above the hand-off or later than the stores below, and every cache state of C07 universes (storemap: 128, samestage: 512 x the three outcomes of the squasher load race, samestage-0-3-0: 1024 in late-loader mode; thorough: 5 universes x 3 outcomes); merge bodies are events; safety in every state and on every transition (incl. the squasher in-memory store holds the content of the block it is labelled with), snapshot files at the end of the store range, unique terminal outcome compared with the sequential reference, deadlock and livelock (backward reachability) detection.",
  "loop.EventLoop.Run is bypassed; asynchronous squasher writes are drained after each event; the partial-vs-full load race is decided by a store wrapper (full wins / partial wins / partial wins and the losing load completes during a later merge); more than 2 identical pending wake-up messages are coalesced (cross-checked against the exact search with --cap 0).",
  "explicit-state BFS over the implementation's own transition function (stateful model checking on the real code, successors by replay)", "2.4 E2, 3/C05")
CHECKS["C16"] = ("E3-sysrun", "fault_enumeration",
  "Exhaustive enumeration of fault placements: the worker's own block source ending cleanly after every block of four requests (followed by the same request on the same cache), and every multiset of <=3 (thorough 4) transient faults over the (job, attempt) sites of a request x 4 fault kinds (+ as first or second fault: the worker answering Canceled, the worker cancelled right after a job's last block, the worker cancelled while a module's host call is in flight) on five programs (incl. a last stage fed from cached outputs, two modules in one layer, context-sensitive modules), and a deterministic module failure at every block in every module, both modes; jobs run through the real RemoteWorker (retry loop, classification) against the real tier2 processRange and the real error mappings of both tiers; streams compared with the fault-free run.",
  "The gRPC transport is an in-process fake stream; goroutine timing inside a run is not controlled; back-off shortened by overlay.",
  "exhaustive enumeration of fault sequences injected at the worker transport of the real implementation", "3/C16")
CHECKS["C03"] = ("E3-sysrun", "exploration",
  "Bounded-exhaustive over histories: every arrival sequence of n<=7 (thorough 8) blocks above genesis where each block's parent is any earlier block (fork tree x arrival order, n! sequences), x finality policies and modes for the smaller n, 2- and 3-branch ladders beyond, requests starting 0-2 blocks above the first block, pushed through the real bstream fork resolver and the real Pipeline.ProcessBlock; after every new/undo step every store's content and size are compared with the reference execution of the current canonical chain, and a client emulator replays the data/undo messages. Plus the E4 store-level BFS over apply/undo histories with the content oracle.",
  "Goroutine timing inside a run is not controlled; no tier2 back-fill in these runs; sequences the resolver refuses are skipped.",
  "bounded exhaustive enumeration of fork histories on the real resolver+pipeline, reference-model oracle; explicit-state BFS for the store-level half", "3/C03")
PENDING = {}
def main():
    checks = []
    for pid in ALL:
        if pid not in CHECKS: continue
        eng, cat, text, note, tech, ref = CHECKS[pid]
        checks.append({
            "property_id": pid,
            "quick_cmd": "./check %s --tier quick" % pid,
            "thorough_cmd": "./check %s --tier thorough" % pid,
            "evidence_file": "/verif/evidence/%s.json" % pid,
            "replay_cmd_template": "./check %s --replay {path}" % pid,
            "engine": eng,
            "level_claimed": {"category": cat, "text": text, "design_ref": "DESIGN.md section " + ref},
            "level_note": note,
            "technique": tech,
        })
    na = [{"property_id": p, "reason": PENDING.get(p, "check not built yet in this round (planned in DESIGN.md section 3); not claimed until its check exists")} for p in ALL if p not in CHECKS]
    m = {
        "version": 1,
        "setup_cmd": "./check setup",
        "hooks": {
            "guard": "verif",
            "enable": "go build -tags verif (done by ./check for every run)",
            "baseline_off_cmd": "cd /repo && go test -vet=off -count=1 -timeout 25m ./...",
            "source_commits": ["630b91f8", "d6a94f07", "4320b116", "1ec2478b", "2770a211", "cf5a6d8a"],
            "add_only": True,
        },
        "engines": [
            {"name": "E4-histx", "path": "harness/histx", "serves_properties": ["C11", "C03"], "kind_free_text": "explicit-state BFS over store histories, successors by replay on a fresh real store"},
            {"name": "E2-schedx", "path": "harness/schedx", "serves_properties": ["C05", "C01", "C07"], "kind_free_text": "explicit-state explorer over the real Scheduler.Update: controlled delivery order, real tier2 jobs (memoised), real merges, state key from hook fingerprints"},
            {"name": "E3-sysrun", "path": "harness/sysrun", "serves_properties": ["C01", "C03", "C04", "C07", "C15", "C16"], "kind_free_text": "whole-system runner: real tier1 + in-process real tier2 on scripted WASM modules, deterministic block source, prepared cache directory"},
            {"name": "E1-enum", "path": "harness/core", "serves_properties": [p for p in ALL if p in CHECKS and CHECKS[p][0]=="E1-enum"], "kind_free_text": "bounded-exhaustive enumerator over the real functions, 16-way parallel"},
        ],
        "checks": checks,
        "not_applicable": na,
        "notes": "All checks rebuild the harness against /repo's working tree with -tags verif. See DESIGN.md.",
    }
    json.dump(m, open("/verif/MANIFEST.json", "w"), indent=1)
    print("wrote MANIFEST.json with", len(checks), "checks")
main()
