// Package progs: the scripted module graphs ("programs") the whole-system checks run.
package progs

import (
	"fmt"

	"google.golang.org/protobuf/proto"

	pbsubstreams "github.com/streamingfast/substreams/pb/sf/substreams/v1"

	"verifharness/modgen"
	. "verifharness/script"
)

type Prog struct {
	Name    string
	Modules *pbsubstreams.Modules
	Output  string   // default output module (a map)
	Outputs []string // other map modules usable as output
}

func mk(name string, bodies map[string]*Body, output string, mods ...*pbsubstreams.Module) *Prog {
	p := &Program{Modules: bodies, Salt: name}
	out := &Prog{Name: name, Modules: modgen.Modules(p.Marshal(), mods...), Output: output}
	for _, m := range mods {
		if m.GetKindMap() != nil && m.Name != output {
			out.Outputs = append(out.Outputs, m.Name)
		}
	}
	return out
}

const (
	pSet  = pbsubstreams.Module_KindStore_UPDATE_POLICY_SET
	pSine = pbsubstreams.Module_KindStore_UPDATE_POLICY_SET_IF_NOT_EXISTS
	pAdd  = pbsubstreams.Module_KindStore_UPDATE_POLICY_ADD
	pApp  = pbsubstreams.Module_KindStore_UPDATE_POLICY_APPEND
	pMax  = pbsubstreams.Module_KindStore_UPDATE_POLICY_MAX
	pMin  = pbsubstreams.Module_KindStore_UPDATE_POLICY_MIN
	pSS   = pbsubstreams.Module_KindStore_UPDATE_POLICY_SET_SUM
)

// StoreMap: one add-int64 store on the block source and a map echoing its reads. sInit / mInit: initial blocks.
func StoreMap(sInit, mInit uint64) *Prog {
	return mk(fmt.Sprintf("storemap-%d-%d", sInit, mInit), map[string]*Body{
		"s": {Ops: []OpT{
			{T: "w", Key: Lit("total"), Val: Lit("1"), Ord: 1},
			{T: "w", Key: Cat(Lit("m"), Mod(3)), Val: Num(), Ord: 2},
		}},
		"m": {Emit: Cat(Num(), Lit(":"), ID(), Lit(" total="), Get(0, "last", Lit("total"), 0), Lit(" first="), Get(0, "first", Lit("total"), 0), Lit(" m="), Get(0, "at", Cat(Lit("m"), Mod(3)), 1), Get(0, "at", Cat(Lit("m"), Mod(3)), 2))},
	}, "m",
		modgen.Store("s", sInit, pAdd, "int64", modgen.Src()),
		modgen.Map("m", mInit, modgen.Src(), modgen.StoreIn("s", false)),
	)
}

// TwoStages: S0 (set) -> S1 (append, reads S0 and its deltas) -> M (reads both). Keys are created, overwritten and deleted by prefix.
func TwoStages(i0, i1, im uint64) *Prog {
	return mk(fmt.Sprintf("twostages-%d-%d-%d", i0, i1, im), map[string]*Body{
		"s0": {Ops: []OpT{
			{T: "w", Key: Cat(Lit("a"), Mod(3)), Val: Cat(Lit("v"), Num()), Ord: 1},
			{If: Every(4, 3), T: "d", Key: Lit("a1"), Ord: 2},
			{If: Every(5, 0), T: "w", Key: Lit("ab"), Val: ID(), Ord: 3},
			{T: "w", Key: Lit("a0"), Val: Lit("early"), Ord: 0}, // called last, ordered first: the log is not in call order
		}},
		"s1": {Ops: []OpT{
			{T: "w", Key: Lit("log"), Val: Cat(Get(0, "last", Lit("a0"), 0), Lit(";")), Ord: 1},
			{If: Every(2, 1), T: "w", Key: Cat(Lit("d"), Mod(2)), Val: Cat(Lit("["), Deltas("s0"), Lit("]")), Ord: 2},
			{If: Every(7, 6), T: "d", Key: Lit("d"), Ord: 3},
		}},
		"m": {Emit: Cat(Num(), Lit(" a0="), Get(0, "last", Lit("a0"), 0), Lit(" a1="), Get(0, "last", Lit("a1"), 0), Lit(" has_ab="), Has(0, "last", Lit("ab"), 0), Lit(" log="), Get(1, "last", Lit("log"), 0), Lit(" d1="), Get(1, "first", Lit("d1"), 0), Lit(" dl="), Deltas("s1"))},
	}, "m",
		modgen.Store("s0", i0, pSet, "string", modgen.Src()),
		modgen.Store("s1", i1, pApp, "string", modgen.Src(), modgen.StoreIn("s0", false), modgen.StoreIn("s0", true)),
		modgen.Map("m", im, modgen.Src(), modgen.StoreIn("s0", false), modgen.StoreIn("s1", false), modgen.StoreIn("s1", true)),
	)
}

// SameStage: two stores in one stage with initial blocks in different segments, and a map reading both.
func SameStage(ia, ib, im uint64) *Prog {
	return mk(fmt.Sprintf("samestage-%d-%d-%d", ia, ib, im), map[string]*Body{
		"sa": {Ops: []OpT{{T: "w", Key: Lit("max"), Val: Mod(7), Ord: 0}, {T: "w", Key: Cat(Lit("k"), Mod(2)), Val: Num(), Ord: 1}}},
		"sb": {Ops: []OpT{{T: "w", Key: Lit("first"), Val: Num(), Ord: 0}, {If: Every(3, 0), T: "w", Key: Cat(Lit("f"), Div(3)), Val: ID(), Ord: 0}}},
		"m":  {Emit: Cat(Num(), Lit(" max="), Get(0, "last", Lit("max"), 0), Lit(" k1="), Get(0, "last", Lit("k1"), 0), Lit(" first="), Get(1, "last", Lit("first"), 0), Lit(" f1="), Get(1, "last", Lit("f1"), 0))},
	}, "m",
		modgen.Store("sa", ia, pMax, "int64", modgen.Src()),
		modgen.Store("sb", ib, pSine, "string", modgen.Src()),
		modgen.Map("m", im, modgen.Src(), modgen.StoreIn("sa", false), modgen.StoreIn("sb", false)),
	)
}

// Index: a block index, a filtered map, a filtered store and an output map.
func Index() *Prog {
	return mk("index", map[string]*Body{
		"idx": {Keys: []KeyT{{If: Every(2, 0), Key: Lit("even")}, {If: Every(3, 0), Key: Lit("three")}, {Key: Cat(Lit("mod5-"), Mod(5))}}},
		"fm":  {Emit: Cat(Lit("fm@"), Num())},
		"fs":  {Ops: []OpT{{T: "w", Key: Lit("cnt"), Val: Lit("1"), Ord: 0}, {T: "w", Key: Lit("last"), Val: Num(), Ord: 0}}},
		"m":   {Emit: Cat(Num(), Lit(" fm="), In("fm"), Lit(" cnt="), Get(0, "last", Lit("cnt"), 0), Lit(" last="), Get(0, "last", Lit("last"), 0))},
	}, "m",
		modgen.Index("idx", 0, modgen.Src()),
		modgen.WithFilter(modgen.Map("fm", 0, modgen.Src()), "idx", "even && three"),
		modgen.WithFilter(modgen.Store("fs", 0, pAdd, "bigint", modgen.Src()), "idx", "three || mod5-1"),
		modgen.Map("m", 0, modgen.Src(), modgen.MapIn("fm"), modgen.StoreIn("fs", false)),
	)
}

// Chain: the output map reads only other modules (a mapper's output and a store), no block source and no clock: its
// segment jobs are fed from cached outputs instead of the block stream (tier2's canSkipBlockSource path).
func Chain(init uint64) *Prog {
	return mk(fmt.Sprintf("chain-%d", init), map[string]*Body{
		"src": {Emit: Cat(Lit("b"), Num())},
		"acc": {Ops: []OpT{{T: "w", Key: Lit("n"), Val: Lit("1"), Ord: 0}, {T: "w", Key: Cat(Lit("k"), Mod(2)), Val: Num(), Ord: 1}}},
		"m":   {Emit: Cat(Num(), Lit(" src="), In("src"), Lit(" n="), Get(0, "last", Lit("n"), 0), Lit(" k1="), Get(0, "last", Lit("k1"), 0))},
	}, "m",
		modgen.Map("src", init, modgen.Src()),
		modgen.Store("acc", init, pAdd, "int64", modgen.MapIn("src")),
		modgen.Map("m", init, modgen.MapIn("src"), modgen.StoreIn("acc", false)),
	)
}

// EmptyMap: a mapper without skip_empty_output whose payload is empty on every other block, and a consumer whose only
// input is that mapper: "present but empty" (the consumer runs) must not turn into "skipped" (it does not) when the
// mapper's output comes from a cache file.
func EmptyMap(init uint64) *Prog {
	p := mk(fmt.Sprintf("emptymap-%d", init), map[string]*Body{
		"e": {Emit: Expr{"when", []any(Every(2, 1)), []any(Cat(Lit("e@"), Num()))}},
		"c": {Emit: Cat(Lit("c@"), Num(), Lit("="), In("e"))},
	}, "c",
		modgen.Map("e", init, modgen.Src()),
		modgen.Map("c", init, modgen.MapIn("e")),
	)
	p.Outputs = []string{"e"}
	return p
}

// SineDeltas: a set_if_not_exists store whose operations are no-ops after the first block (the key exists) and a
// delete_prefix that matches nothing, read in deltas mode by the output map: blocks whose log is not empty but yields
// no delta.
func SineDeltas(init uint64) *Prog {
	return mk(fmt.Sprintf("sinedeltas-%d", init), map[string]*Body{
		"s": {Ops: []OpT{
			{T: "w", Key: Lit("first"), Val: Num(), Ord: 0},
			{If: Every(3, 0), T: "w", Key: Cat(Lit("t"), Div(3)), Val: ID(), Ord: 1},
			{If: Every(4, 1), T: "d", Key: Lit("zz"), Ord: 2},
		}},
		"m": {Emit: Cat(Num(), Lit(" d="), Deltas("s"))},
	}, "m",
		modgen.Store("s", init, pSine, "string", modgen.Src()),
		modgen.Map("m", init, modgen.Src(), modgen.StoreIn("s", true)),
	)
}

// Index2: two block-index modules computed by the same segment job, sharing the key name "k" on different blocks
// (idxa: even blocks; idxb: blocks = 1 mod 3), and modules filtered on that key through each of them.
func Index2() *Prog {
	return mk("index2", map[string]*Body{
		"idxa": {Keys: []KeyT{{If: Every(2, 0), Key: Lit("k")}, {If: Every(3, 0), Key: Lit("a3")}}},
		"idxb": {Keys: []KeyT{{If: Every(3, 1), Key: Lit("k")}, {If: Every(5, 0), Key: Lit("b5")}}},
		"fa":   {Emit: Cat(Lit("fa@"), Num())},
		"fb":   {Emit: Cat(Lit("fb@"), Num())},
		"fs":   {Ops: []OpT{{T: "w", Key: Lit("cnt"), Val: Lit("1"), Ord: 0}, {T: "w", Key: Lit("last"), Val: Num(), Ord: 0}}},
		"m":    {Emit: Cat(Num(), Lit(" fa="), In("fa"), Lit(" fb="), In("fb"), Lit(" cnt="), Get(0, "last", Lit("cnt"), 0), Lit(" last="), Get(0, "last", Lit("last"), 0))},
	}, "m",
		modgen.Index("idxa", 0, modgen.Src()),
		modgen.Index("idxb", 0, modgen.Src()),
		modgen.WithFilter(modgen.Map("fa", 0, modgen.Src()), "idxa", "k"),
		modgen.WithFilter(modgen.Map("fb", 0, modgen.Src()), "idxb", "k || b5"),
		modgen.WithFilter(modgen.Store("fs", 0, pAdd, "bigint", modgen.Src()), "idxb", "k"),
		modgen.Map("m", 0, modgen.Src(), modgen.MapIn("fa"), modgen.MapIn("fb"), modgen.StoreIn("fs", false)),
	)
}

// ClockSparse: a mapper that is empty on most blocks (skip_empty_output), a store fed by it, a clock-only store and
// a params-only map next to them; the output map reads everything.
func ClockSparse(init uint64) *Prog {
	return mk(fmt.Sprintf("clocksparse-%d", init), map[string]*Body{
		"sp":     {SkipEmpty: true, Emit: Expr{"when", []any(Every(4, 1)), []any(Cat(Lit("sp@"), Num()))}},
		"sfeed":  {Ops: []OpT{{T: "w", Key: Lit("n"), Val: Lit("1"), Ord: 0}, {T: "w", Key: Lit("lastin"), Val: Lit("0"), Ord: 1}}},
		"sclock": {Ops: []OpT{{T: "w", Key: Lit("ticks"), Val: Lit("1"), Ord: 0}}},
		"pm":     {Emit: Cat(Lit("p="), Expr{"params"}, Lit("@"), Num())},
		"m":      {Emit: Cat(Num(), Lit(" n="), Get(0, "last", Lit("n"), 0), Lit(" ticks="), Get(1, "last", Lit("ticks"), 0), Lit(" pm="), In("pm"), Lit(" sp="), In("sp"))},
	}, "m",
		modgen.Map("sp", init, modgen.Src()),
		modgen.Store("sfeed", init, pAdd, "int64", modgen.MapIn("sp")),
		modgen.Store("sclock", init, pAdd, "int64", modgen.Clock()),
		modgen.Map("pm", init, modgen.Params("hello")),
		modgen.Map("m", init, modgen.Clock(), modgen.StoreIn("sfeed", false), modgen.StoreIn("sclock", false), modgen.MapIn("pm"), modgen.MapIn("sp")),
	)
}

// NoInput: the output map's only input is a mapper that is skipped (skip_empty_output) on three blocks out of four: on
// those blocks the output module is not executed at all (no input), which is not the same path as "executed and empty".
func NoInput(init uint64) *Prog {
	return mk(fmt.Sprintf("noinput-%d", init), map[string]*Body{
		"sp": {SkipEmpty: true, Emit: Expr{"when", []any(Every(4, 1)), []any(Cat(Lit("sp@"), Num()))}},
		"c":  {Emit: Cat(Lit("c@"), Num(), Lit("="), In("sp"))},
	}, "c",
		modgen.Map("sp", init, modgen.Src()),
		modgen.Map("c", init, modgen.MapIn("sp")),
	)
}

// MapOnly: no store at all.
func MapOnly(init uint64) *Prog {
	return mk(fmt.Sprintf("maponly-%d", init), map[string]*Body{
		"m": {Emit: Cat(Lit("blk"), Num(), Lit("/"), ID())},
	}, "m",
		modgen.Map("m", init, modgen.Src()),
	)
}

// Policies: one store per interesting policy in a single stage + a map echoing them (sums, min/max, set_sum, sine).
func Policies() *Prog {
	return mk("policies", map[string]*Body{
		"smin": {Ops: []OpT{{T: "w", Key: Lit("k"), Val: Cat(Mod(7)), Ord: 0}}},
		"sss":  {Ops: []OpT{{If: Every(4, 0), T: "w", Key: Lit("k"), Val: Cat(Lit("set:"), Num()), Ord: 0}, {If: Not(Every(4, 0)), T: "w", Key: Lit("k"), Val: Lit("sum:2"), Ord: 0}, {If: Every(6, 5), T: "d", Key: Lit("k"), Ord: 1}}},
		"sbig": {Ops: []OpT{{T: "w", Key: Cat(Lit("x"), Mod(2)), Val: Lit("100000000000000000000"), Ord: 0}}},
		"m":    {Emit: Cat(Num(), Lit(" min="), Get(0, "last", Lit("k"), 0), Lit(" ss="), Get(1, "last", Lit("k"), 0), Lit(" big="), Get(2, "last", Lit("x1"), 0))},
	}, "m",
		modgen.Store("smin", 0, pMin, "bigint", modgen.Src()),
		modgen.Store("sss", 0, pSS, "int64", modgen.Src()),
		modgen.Store("sbig", 0, pAdd, "bigint", modgen.Src()),
		modgen.Map("m", 0, modgen.Src(), modgen.StoreIn("smin", false), modgen.StoreIn("sss", false), modgen.StoreIn("sbig", false)),
	)
}

// CtxSensitive returns a copy of p in which every module makes a context-sensitive host call (script.Body.CtxSensitive).
func CtxSensitive(p *Prog) *Prog {
	prog, err := Parse(p.Modules.Binaries[0].Content)
	if err != nil {
		panic(err)
	}
	for _, b := range prog.Modules {
		b.CtxSensitive = true
	}
	mods := make([]*pbsubstreams.Module, len(p.Modules.Modules))
	for i, m := range p.Modules.Modules {
		mods[i] = proto.Clone(m).(*pbsubstreams.Module)
	}
	return &Prog{Name: p.Name + "~ctx", Modules: modgen.Modules(prog.Marshal(), mods...), Output: p.Output}
}

// WithFailAt returns a copy of p whose module mod fails deterministically at block n.
func WithFailAt(p *Prog, mod string, n uint64) *Prog {
	prog, err := Parse(p.Modules.Binaries[0].Content)
	if err != nil {
		panic(err)
	}
	b := prog.Modules[mod]
	if b == nil {
		b = &Body{}
		prog.Modules[mod] = b
	}
	b.FailAt = n
	mods := make([]*pbsubstreams.Module, len(p.Modules.Modules))
	copy(mods, p.Modules.Modules)
	return &Prog{Name: fmt.Sprintf("%s+fail(%s@%d)", p.Name, mod, n), Modules: modgen.Modules(prog.Marshal(), mods...), Output: p.Output}
}

// Mutant: one-field mutations of the first store module of p (its body, or its initial block). Everything else,
// including module names, is unchanged: only the hash may tell the mutant's cache files from the original's.
func Mutant(p *Prog, kind string) *Prog {
	prog, err := Parse(p.Modules.Binaries[0].Content)
	if err != nil {
		panic(err)
	}
	mods := make([]*pbsubstreams.Module, len(p.Modules.Modules))
	for i, m := range p.Modules.Modules {
		mods[i] = proto.Clone(m).(*pbsubstreams.Module)
	}
	var first *pbsubstreams.Module
	for _, m := range mods {
		if m.GetKindStore() != nil {
			first = m
			break
		}
	}
	if first == nil {
		first = mods[0]
	}
	switch kind {
	case "store-body":
		b := prog.Modules[first.BinaryEntrypoint]
		if b != nil && len(b.Ops) > 0 {
			b.Ops = append([]OpT{{T: "w", Key: Lit("total"), Val: Lit("1000"), Ord: 0}, {T: "w", Key: Lit("a0"), Val: Lit("MUTANT"), Ord: 9}, {T: "w", Key: Lit("max"), Val: Lit("99"), Ord: 0}, {T: "w", Key: Lit("cnt"), Val: Lit("50"), Ord: 0}, {T: "w", Key: Lit("k"), Val: Lit("-7"), Ord: 0}, {T: "w", Key: Lit("n"), Val: Lit("100"), Ord: 0}}, b.Ops...)
		} else if b != nil {
			b.Emit = Cat(Lit("MUTANT"), b.Emit)
		}
	case "store-init":
		first.InitialBlock++
	}
	return &Prog{Name: p.Name + "~" + kind, Modules: modgen.Modules(prog.Marshal(), mods...), Output: p.Output}
}

// ClockSparse2: like ClockSparse but the clock-driven modules sit in the same stage as the sparse mapper: the
// clock store also reads the params-only map, so it is layered after the maps; a second output map has no store.
func ClockSparse2(init uint64) *Prog {
	return mk(fmt.Sprintf("clocksparse2-%d", init), map[string]*Body{
		"sp":     {SkipEmpty: true, Emit: Expr{"when", []any(Every(4, 1)), []any(Cat(Lit("sp@"), Num()))}},
		"pm":     {Emit: Cat(Lit("p="), Expr{"params"}, Lit("@"), Num())},
		"sfeed":  {Ops: []OpT{{T: "w", Key: Lit("n"), Val: Lit("1"), Ord: 0}}},
		"sclock": {Ops: []OpT{{T: "w", Key: Lit("ticks"), Val: Lit("1"), Ord: 0}}},
		"mc":     {Emit: Cat(Lit("mc@"), Num(), Lit(" pm="), In("pm"), Lit(" sp="), In("sp"))},
		"m":      {Emit: Cat(Num(), Lit(" n="), Get(0, "last", Lit("n"), 0), Lit(" ticks="), Get(1, "last", Lit("ticks"), 0), Lit(" pm="), In("pm"))},
	}, "m",
		modgen.Map("sp", init, modgen.Src()),
		modgen.Map("pm", init, modgen.Params("hello")),
		modgen.Store("sfeed", init, pAdd, "int64", modgen.MapIn("sp")),
		modgen.Store("sclock", init, pAdd, "int64", modgen.Clock(), modgen.MapIn("pm")),
		modgen.Map("mc", init, modgen.Clock(), modgen.MapIn("pm"), modgen.MapIn("sp")),
		modgen.Map("m", init, modgen.Clock(), modgen.StoreIn("sfeed", false), modgen.StoreIn("sclock", false), modgen.MapIn("pm")),
	)
}

// Fork: stores whose operations depend on the block *id* (so competing blocks at one height differ): keys created,
// updated with a size change, deleted by prefix; an additive store; a map reading both. Initial block g1 = genesis+1.
func Fork(g1 uint64) *Prog {
	return mk(fmt.Sprintf("fork-%d", g1), map[string]*Body{
		"sf": {Ops: []OpT{
			{T: "w", Key: Cat(Lit("k"), Mod(2)), Val: ID(), Ord: 1},
			{If: IDSuffix("b"), T: "w", Key: Cat(Lit("fork"), Num()), Val: Cat(ID(), ID(), ID()), Ord: 2},
			{If: IDSuffix("a"), T: "w", Key: Lit("len"), Val: Lit("x"), Ord: 2},
			{If: IDSuffix("b"), T: "w", Key: Lit("len"), Val: Cat(Lit("longer-"), ID()), Ord: 2},
			{If: IDSuffix("c"), T: "d", Key: Lit("fork"), Ord: 3},
			{If: IDSuffix("c"), T: "d", Key: Lit("k1"), Ord: 0},
		}},
		"sadd": {Ops: []OpT{
			{T: "w", Key: Lit("cnt"), Val: Lit("1"), Ord: 0},
			{If: IDSuffix("b"), T: "w", Key: Lit("b"), Val: Num(), Ord: 1},
			{If: IDSuffix("c"), T: "d", Key: Lit("b"), Ord: 2},
		}},
		// a mapper that runs before a store, and a store fed by it: the recorded outputs of a block are not "stores first"
		"pre": {Emit: Cat(Lit("p-"), ID())},
		"sm": {Ops: []OpT{
			{T: "w", Key: Cat(Lit("p"), Mod(2)), Val: In("pre"), Ord: 0},
			{If: IDSuffix("b"), T: "w", Key: Cat(Lit("pb"), Num()), Val: In("pre"), Ord: 1},
			{If: IDSuffix("c"), T: "d", Key: Lit("pb"), Ord: 2},
		}},
		"m": {Emit: Cat(ID(), Lit(" k0="), Get(0, "last", Lit("k0"), 0), Lit(" len="), Get(0, "last", Lit("len"), 0), Lit(" cnt="), Get(1, "last", Lit("cnt"), 0), Lit(" b="), Get(1, "last", Lit("b"), 0), Lit(" p0="), Get(2, "last", Lit("p0"), 0), Lit(" d="), Deltas("sf"))},
	}, "m",
		modgen.Store("sf", g1, pSet, "string", modgen.Src()),
		modgen.Store("sadd", g1, pAdd, "int64", modgen.Src()),
		modgen.Map("pre", g1, modgen.Src()),
		modgen.Store("sm", g1, pSet, "string", modgen.MapIn("pre")),
		modgen.Map("m", g1, modgen.Src(), modgen.StoreIn("sf", false), modgen.StoreIn("sadd", false), modgen.StoreIn("sm", false), modgen.StoreIn("sf", true)),
	)
}
