// Package sysx: helpers shared by the whole-system checks (reference streams, stream comparison, failure classes).
package sysx

import (
	"fmt"
	"os"
	"strings"
	"sync"

	pbsubstreams "github.com/streamingfast/substreams/pb/sf/substreams/v1"

	"verifharness/progs"
	"verifharness/script"
	"verifharness/sysrun"
)

type Row struct {
	Num     uint64
	ID      string
	Payload string
}

func (r Row) String() string { return fmt.Sprintf("%d:%q", r.Num, r.Payload) }

// NonEmpty: the (number, id, payload) sequence of a run restricted to non-empty payloads.
func NonEmpty(ds []sysrun.DataMsg) []Row {
	var out []Row
	for _, d := range ds {
		if d.Payload != "" {
			out = append(out, Row{d.Num, d.ID, d.Payload})
		}
	}
	return out
}

func Restrict(rows []Row, start, stop uint64) []Row {
	var out []Row
	for _, r := range rows {
		if r.Num >= start && (stop == 0 || r.Num < stop) {
			out = append(out, r)
		}
	}
	return out
}

func FmtRows(rows []Row) string {
	var s []string
	for _, r := range rows {
		s = append(s, r.String())
	}
	return "[" + strings.Join(s, " ") + "]"
}

// Diff: "" when equal, else a description of the first difference.
func Diff(got, want []Row) string {
	for i := 0; i < len(got) || i < len(want); i++ {
		switch {
		case i >= len(got):
			return fmt.Sprintf("missing %s (got %d messages, want %d)", want[i], len(got), len(want))
		case i >= len(want):
			return fmt.Sprintf("extra %s (got %d messages, want %d)", got[i], len(got), len(want))
		case got[i] != want[i]:
			return fmt.Sprintf("message %d is %s, expected %s", i, got[i], want[i])
		}
	}
	return ""
}

// Reference: what the reference interpreter says the output module emits on the canonical chain b<lowest>..b<upTo-1>.
func Reference(mods *pbsubstreams.Modules, output string, upTo uint64) ([]Row, uint64, error) {
	it, err := script.NewInterp(mods, output)
	if err != nil {
		return nil, 0, err
	}
	lowest := it.LowestInit()
	var out []Row
	for n := lowest; n < upTo; n++ {
		r := it.Step(script.Blk{Num: n, ID: sysrun.BlockID(n)})
		if r.Failed != "" {
			return out, lowest, fmt.Errorf("module %s fails at block %d", r.Failed, n)
		}
		if p, ok := r.Payload[output]; ok && p != "" {
			out = append(out, Row{n, sysrun.BlockID(n), p})
		}
	}
	return out, lowest, nil
}

var linMu sync.Mutex
var linCache = map[string][]Row{}

// Linear: the linear reference run of the real system — development mode, start at the lowest initial block, empty
// cache: no tier2 job, no cached file, one sequential pipeline. Memoised per (program, output, upTo).
func Linear(p *progs.Prog, output string, lowest, upTo uint64) ([]Row, error) {
	// start at the output module's initial block; with a segment size above every block number the hand-off
	// resolves to the lowest store initial block and nothing is back-filled (asserted below: no tier2 job)
	start := OutputInit(p.Modules, output)
	key := fmt.Sprintf("%s/%s/%d", p.Name, output, upTo)
	linMu.Lock()
	if r, ok := linCache[key]; ok {
		linMu.Unlock()
		return r, nil
	}
	linMu.Unlock()
	dir := sysrun.Scratch("linear")
	defer os.RemoveAll(dir)
	r := sysrun.Run(sysrun.Config{Modules: p.Modules, Output: output, Prod: false, Seg: 1 << 40, Start: int64(start), Stop: upTo, Dir: dir, Source: sysrun.LinearChain{Head: upTo + 2, Final: upTo + 2}})
	if r.Err != nil {
		return nil, r.Err
	}
	if len(r.Jobs) != 0 {
		return nil, fmt.Errorf("harness: the linear reference run used %d tier2 jobs", len(r.Jobs))
	}
	rows := NonEmpty(r.Data)
	linMu.Lock()
	linCache[key] = rows
	linMu.Unlock()
	return rows, nil
}

func OutputInit(mods *pbsubstreams.Modules, output string) uint64 {
	for _, m := range mods.Modules {
		if m.Name == output {
			return m.InitialBlock
		}
	}
	return 0
}

// IsHang reports whether a run ended on its deadline.
func IsHang(err error) bool {
	return err != nil && (strings.Contains(err.Error(), "context deadline exceeded") || strings.Contains(err.Error(), "HANG"))
}

// StoreInits: initial blocks of the store modules needed by output.
func StoreInits(mods *pbsubstreams.Modules, output string) []uint64 {
	it, err := script.NewInterp(mods, output)
	if err != nil {
		return nil
	}
	var out []uint64
	for name := range it.Stores {
		for _, m := range mods.Modules {
			if m.Name == name {
				out = append(out, m.InitialBlock)
			}
		}
	}
	return out
}

// KnownHangClass: the C04 finding — production, outputs back-filled, every store at or above the hand-off.
func KnownHangClass(r *sysrun.Result, prod bool, start uint64, storeInits []uint64) bool {
	if !IsHang(r.Err) || r.Session == nil || !prod || len(storeInits) == 0 {
		return false
	}
	h := r.Session.LinearHandoffBlock
	if start >= h {
		return false
	}
	for _, s := range storeInits {
		if s < h {
			return false
		}
	}
	return true
}

const HangKey = "hang:outputs-back-filled-while-every-store-starts-at-or-above-the-hand-off"
