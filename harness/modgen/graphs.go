package modgen

import (
	"fmt"

	pbsubstreams "github.com/streamingfast/substreams/pb/sf/substreams/v1"
)

const (
	KMap = iota
	KStore
	KIndex
)

// ModSpec describes one module of a generated graph relative to the modules before it in the list.
type ModSpec struct {
	Kind   int    `json:"kind"`             // KMap / KStore / KIndex
	Source int    `json:"source"`           // 0 none, 1 block, 2 clock
	Params bool   `json:"params,omitempty"` // params as first input
	Refs   []int  `json:"refs,omitempty"`   // per earlier module: 0 none, 1 map input / store get, 2 store deltas
	Filter int    `json:"filter"`           // -1 none, else index of an earlier block-index module
	Init   uint64 `json:"init"`
}

type GraphSpec []ModSpec

func Name(i int) string { return string(rune('a' + i)) }

func (g GraphSpec) Build() *pbsubstreams.Modules {
	var mods []*pbsubstreams.Module
	for i, ms := range g {
		var inputs []*pbsubstreams.Module_Input
		if ms.Params {
			inputs = append(inputs, Params(fmt.Sprintf("p%d", i)))
		}
		switch ms.Source {
		case 1:
			inputs = append(inputs, Src())
		case 2:
			inputs = append(inputs, Clock())
		}
		for j, r := range ms.Refs {
			if r == 0 {
				continue
			}
			if g[j].Kind == KStore {
				inputs = append(inputs, StoreIn(Name(j), r == 2))
			} else {
				inputs = append(inputs, MapIn(Name(j)))
			}
		}
		var m *pbsubstreams.Module
		switch ms.Kind {
		case KMap:
			m = Map(Name(i), ms.Init, inputs...)
		case KStore:
			m = Store(Name(i), ms.Init, pbsubstreams.Module_KindStore_UPDATE_POLICY_SET, "string", inputs...)
		case KIndex:
			m = Index(Name(i), ms.Init, inputs...)
		}
		if ms.Filter >= 0 {
			WithFilter(m, Name(ms.Filter), "k")
		}
		mods = append(mods, m)
	}
	return Modules([]byte("code-0"), mods...)
}

// Deps: direct dependencies (inputs and block filter) of module i, as indexes.
func (g GraphSpec) Deps(i int) []int {
	var out []int
	for j, r := range g[i].Refs {
		if r != 0 {
			out = append(out, j)
		}
	}
	if g[i].Filter >= 0 {
		out = append(out, g[i].Filter)
	}
	return out
}

// Closure: i plus all its ancestors (independent DFS).
func (g GraphSpec) Closure(i int) map[int]bool {
	seen := map[int]bool{}
	var dfs func(int)
	dfs = func(x int) {
		if seen[x] {
			return
		}
		seen[x] = true
		for _, d := range g.Deps(x) {
			dfs(d)
		}
	}
	dfs(i)
	return seen
}

type EnumOpts struct {
	Inits   []uint64
	Sources []int
	Params  bool
	Deltas  bool
}

// EnumGraphs enumerates every module list of exactly n modules under opts, simplest first.
func EnumGraphs(n int, o EnumOpts, emit func(GraphSpec) bool) bool {
	g := make(GraphSpec, 0, n)
	var rec func() bool
	rec = func() bool {
		i := len(g)
		if i == n {
			cp := make(GraphSpec, n)
			for k := range g {
				cp[k] = g[k]
				cp[k].Refs = append([]int{}, g[k].Refs...)
			}
			return emit(cp)
		}
		paramsOpts := []bool{false}
		if o.Params {
			paramsOpts = []bool{false, true}
		}
		for _, kind := range []int{KMap, KStore, KIndex} {
			for _, src := range o.Sources {
				for _, par := range paramsOpts {
					for _, init := range o.Inits {
						// filters: none or an earlier index (block-index modules themselves take no filter)
						filters := []int{-1}
						if kind != KIndex {
							for j := 0; j < i; j++ {
								if g[j].Kind == KIndex {
									filters = append(filters, j)
								}
							}
						}
						for _, f := range filters {
							refs := make([]int, i)
							var recRefs func(j int) bool
							recRefs = func(j int) bool {
								if j == i {
									g = append(g, ModSpec{Kind: kind, Source: src, Params: par, Refs: append([]int{}, refs...), Filter: f, Init: init})
									ok := rec()
									g = g[:i]
									return ok
								}
								choices := []int{0}
								switch g[j].Kind {
								case KMap:
									choices = []int{0, 1}
								case KStore:
									choices = []int{0, 1}
									if o.Deltas {
										choices = []int{0, 1, 2}
									}
								}
								for _, c := range choices {
									refs[j] = c
									if !recRefs(j + 1) {
										return false
									}
								}
								refs[j] = 0
								return true
							}
							if !recRefs(0) {
								return false
							}
						}
					}
				}
			}
		}
		return true
	}
	return rec()
}

func spec(kind, source int, init uint64, filter int, refs ...int) ModSpec {
	return ModSpec{Kind: kind, Source: source, Init: init, Filter: filter, Refs: refs}
}

// Families: deterministic larger graphs (5..8 modules): chains, diamonds, store/map ladders, wide layers, index fan-out.
func Families() map[string]GraphSpec {
	f := map[string]GraphSpec{}
	// chain map->store->map->store->map->store->map
	f["ladder7"] = GraphSpec{
		spec(KMap, 1, 0, -1),
		spec(KStore, 0, 0, -1, 1),
		spec(KMap, 0, 0, -1, 0, 1),
		spec(KStore, 0, 0, -1, 0, 0, 1),
		spec(KMap, 0, 0, -1, 0, 0, 0, 2),
		spec(KStore, 0, 0, -1, 0, 0, 0, 0, 1),
		spec(KMap, 0, 0, -1, 0, 0, 0, 0, 0, 1),
	}
	// shared input: the output reads x and d; x reads a; d reads a (already reached through x) and a store c that only d
	// reaches. Both branch orders (x before d, d before x).
	f["shared5"] = GraphSpec{
		spec(KMap, 1, 0, -1),             // a
		spec(KStore, 1, 0, -1),           // b = store "c" of the comment
		spec(KMap, 0, 0, -1, 1),          // c = x reads a
		spec(KMap, 0, 0, -1, 1, 1),       // d reads a and the store
		spec(KMap, 0, 0, -1, 0, 0, 1, 1), // e reads x and d
	}
	f["shared5b"] = GraphSpec{
		spec(KMap, 1, 0, -1),             // a
		spec(KStore, 1, 0, -1),           // b: store only d reaches
		spec(KMap, 0, 0, -1, 1, 1),       // c = d reads a and the store
		spec(KMap, 0, 0, -1, 1),          // d = x reads a
		spec(KMap, 0, 0, -1, 0, 0, 1, 1), // e reads both
	}
	// the same with the private dependency declared last
	f["shared6"] = GraphSpec{
		spec(KMap, 1, 0, -1),                // a
		spec(KMap, 0, 0, -1, 1),             // b = x reads a
		spec(KStore, 0, 0, -1, 1),           // c = store reading a
		spec(KStore, 1, 0, -1),              // d = private store
		spec(KMap, 0, 0, -1, 1, 0, 0, 1),    // e reads a and the private store
		spec(KMap, 0, 0, -1, 0, 1, 1, 0, 1), // f reads x, store c and e
	}
	// diamond: m0 -> (s1, s2) -> m3 ; plus unrelated m4, s5
	f["diamond6"] = GraphSpec{
		spec(KMap, 1, 2, -1),
		spec(KStore, 0, 2, -1, 1),
		spec(KStore, 0, 5, -1, 1),
		spec(KMap, 0, 5, -1, 0, 1, 2),
		spec(KMap, 2, 0, -1),
		spec(KStore, 0, 0, -1, 0, 0, 0, 0, 1),
	}
	// wide store layer with different initial blocks feeding one store then a map
	f["wide7"] = GraphSpec{
		spec(KStore, 1, 0, -1),
		spec(KStore, 1, 3, -1),
		spec(KStore, 2, 7, -1),
		spec(KStore, 1, 7, -1),
		spec(KStore, 0, 7, -1, 1, 2, 1, 2),
		spec(KMap, 0, 7, -1, 0, 0, 0, 0, 1),
		spec(KMap, 0, 9, -1, 0, 0, 0, 0, 2, 1),
	}
	// index fan-out: one index filtering a map, a store and a second-stage map; a second index built from a map
	f["index8"] = GraphSpec{
		spec(KIndex, 1, 0, -1),
		spec(KMap, 1, 0, 0),
		spec(KStore, 1, 0, 0),
		spec(KMap, 0, 0, 0, 0, 1, 1),
		spec(KIndex, 0, 0, -1, 0, 1),
		spec(KMap, 1, 0, 4),
		spec(KStore, 0, 0, 4, 0, 0, 0, 0, 0, 1),
		spec(KMap, 0, 0, -1, 0, 0, 1, 0, 0, 0, 2),
	}
	// deep alternation where a store depends on a store two stages up and a map in the same stage
	f["mixed7"] = GraphSpec{
		spec(KStore, 1, 1, -1),
		spec(KMap, 0, 1, -1, 1),
		spec(KStore, 0, 1, -1, 2, 1),
		spec(KMap, 2, 1, -1),
		spec(KStore, 0, 4, -1, 1, 0, 0, 1),
		spec(KMap, 0, 4, -1, 0, 0, 1, 0, 2),
		spec(KMap, 0, 4, -1, 0, 1, 0, 0, 0, 1),
	}
	// smallest graph in which an input can be retargeted inside the ancestor set: d reads b and c, c reads b, b reads a
	f["retarget4"] = GraphSpec{
		spec(KMap, 1, 0, -1),
		spec(KMap, 0, 0, -1, 1),
		spec(KMap, 0, 0, -1, 0, 1),
		spec(KMap, 0, 0, -1, 0, 1, 1),
	}
	for _, g := range f {
		for i := range g {
			for len(g[i].Refs) < i {
				g[i].Refs = append(g[i].Refs, 0)
			}
		}
	}
	return f
}
