// Package modgen builds pbsubstreams.Modules graphs for the checks.
package modgen

import (
	pbsubstreams "github.com/streamingfast/substreams/pb/sf/substreams/v1"
)

const BlockType = "sf.substreams.v1.test.Block"
const ClockType = "sf.substreams.v1.Clock"

func Src() *pbsubstreams.Module_Input {
	return &pbsubstreams.Module_Input{Input: &pbsubstreams.Module_Input_Source_{Source: &pbsubstreams.Module_Input_Source{Type: BlockType}}}
}
func Clock() *pbsubstreams.Module_Input {
	return &pbsubstreams.Module_Input{Input: &pbsubstreams.Module_Input_Source_{Source: &pbsubstreams.Module_Input_Source{Type: ClockType}}}
}
func Source(t string) *pbsubstreams.Module_Input {
	return &pbsubstreams.Module_Input{Input: &pbsubstreams.Module_Input_Source_{Source: &pbsubstreams.Module_Input_Source{Type: t}}}
}
func MapIn(name string) *pbsubstreams.Module_Input {
	return &pbsubstreams.Module_Input{Input: &pbsubstreams.Module_Input_Map_{Map: &pbsubstreams.Module_Input_Map{ModuleName: name}}}
}
func StoreIn(name string, deltas bool) *pbsubstreams.Module_Input {
	mode := pbsubstreams.Module_Input_Store_GET
	if deltas {
		mode = pbsubstreams.Module_Input_Store_DELTAS
	}
	return &pbsubstreams.Module_Input{Input: &pbsubstreams.Module_Input_Store_{Store: &pbsubstreams.Module_Input_Store{ModuleName: name, Mode: mode}}}
}
func Params(v string) *pbsubstreams.Module_Input {
	return &pbsubstreams.Module_Input{Input: &pbsubstreams.Module_Input_Params_{Params: &pbsubstreams.Module_Input_Params{Value: v}}}
}

func Map(name string, init uint64, inputs ...*pbsubstreams.Module_Input) *pbsubstreams.Module {
	return &pbsubstreams.Module{
		Name:             name,
		Kind:             &pbsubstreams.Module_KindMap_{KindMap: &pbsubstreams.Module_KindMap{OutputType: "proto:verif.Out"}},
		BinaryEntrypoint: name,
		InitialBlock:     init,
		Inputs:           inputs,
		Output:           &pbsubstreams.Module_Output{Type: "proto:verif.Out"},
	}
}

func Store(name string, init uint64, policy pbsubstreams.Module_KindStore_UpdatePolicy, vt string, inputs ...*pbsubstreams.Module_Input) *pbsubstreams.Module {
	return &pbsubstreams.Module{
		Name:             name,
		Kind:             &pbsubstreams.Module_KindStore_{KindStore: &pbsubstreams.Module_KindStore{UpdatePolicy: policy, ValueType: vt}},
		BinaryEntrypoint: name,
		InitialBlock:     init,
		Inputs:           inputs,
	}
}

func Index(name string, init uint64, inputs ...*pbsubstreams.Module_Input) *pbsubstreams.Module {
	return &pbsubstreams.Module{
		Name:             name,
		Kind:             &pbsubstreams.Module_KindBlockIndex_{KindBlockIndex: &pbsubstreams.Module_KindBlockIndex{OutputType: "proto:sf.substreams.index.v1.Keys"}},
		BinaryEntrypoint: name,
		InitialBlock:     init,
		Inputs:           inputs,
		Output:           &pbsubstreams.Module_Output{Type: "proto:sf.substreams.index.v1.Keys"},
	}
}

func WithFilter(m *pbsubstreams.Module, indexModule, query string) *pbsubstreams.Module {
	m.BlockFilter = &pbsubstreams.Module_BlockFilter{Module: indexModule, Query: &pbsubstreams.Module_BlockFilter_QueryString{QueryString: query}}
	return m
}

func Modules(binary []byte, mods ...*pbsubstreams.Module) *pbsubstreams.Modules {
	return &pbsubstreams.Modules{
		Modules:  mods,
		Binaries: []*pbsubstreams.Binary{{Type: "wasm/rust-v1", Content: binary}},
	}
}
