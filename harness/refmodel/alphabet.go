package refmodel

// Alphabets: small, forced to collide. Keys a / ab / b so that delete_prefix of "a", "b", "" interacts.
var Keys = []string{"a", "ab", "b"}
var Prefixes = []string{"a", "b", ""}

// Values for a combo: lengths differ (size accounting), numbers are dyadic rationals of small magnitude (exact sums).
func Values(c Combo) []string {
	switch c.Policy {
	case "set", "set_if_not_exists", "append":
		// the second value is longer than the 4-byte header between two entries of a snapshot file, so that a write
		// past the end of a value that aliases the file buffer reaches the next entry's key
		return []string{"x", "yz-0123456789", ""}
	case "add", "min", "max":
		switch c.VT {
		// a value and its opposite: sums reach exactly zero (the neutral element is where shortcuts go wrong)
		case "int64", "bigint":
			return []string{"3", "-3", "10"}
		}
		return []string{"0.5", "-0.5", "1.25"}
	case "set_sum":
		switch c.VT {
		case "int64", "bigint":
			return []string{"set:3", "sum:-3", "sum:10"}
		}
		return []string{"set:0.5", "sum:-0.5", "sum:1.25"}
	}
	panic("no alphabet for " + c.String())
}

// OpAlphabet: every write (key x value x ordinal) then every delete_prefix (prefix x ordinal), simplest first.
func OpAlphabet(c Combo, nvals int, ords []uint64) []Op {
	vals := Values(c)
	if nvals < len(vals) {
		vals = vals[:nvals]
	}
	var out []Op
	for _, o := range ords {
		for _, k := range Keys {
			for _, v := range vals {
				out = append(out, Op{T: "w", K: k, V: v, O: o})
			}
		}
	}
	for _, o := range ords {
		for _, p := range Prefixes {
			out = append(out, Op{T: "d", K: p, O: o})
		}
	}
	return out
}

// PreStates: operation lists that build the pre-block state through the same write path (one block each).
func PreStates(c Combo) [][]Op {
	v := Values(c)
	return [][]Op{
		nil,
		{{T: "w", K: "a", V: v[0], O: 0}, {T: "w", K: "ab", V: v[1], O: 0}},
		{{T: "w", K: "ab", V: v[2], O: 1}, {T: "w", K: "b", V: v[0], O: 0}, {T: "w", K: "b", V: v[1], O: 2}},
	}
}

// Sequences enumerates every sequence over alpha of length 1..maxLen (shortest first); stops when emit returns false.
func Sequences(alpha []Op, maxLen int, emit func([]Op) bool) bool {
	idx := make([]int, 0, maxLen)
	for l := 0; l <= maxLen; l++ {
		idx = idx[:l]
		for i := range idx {
			idx[i] = 0
		}
		for {
			seq := make([]Op, l)
			for i, j := range idx {
				seq[i] = alpha[j]
			}
			if !emit(seq) {
				return false
			}
			// increment
			p := l - 1
			for p >= 0 {
				idx[p]++
				if idx[p] < len(alpha) {
					break
				}
				idx[p] = 0
				p--
			}
			if p < 0 {
				break
			}
		}
	}
	return true
}
