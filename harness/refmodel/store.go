// Package refmodel: the boring reference store — a map plus the textbook meaning of the seven update policies.
// It uses no substreams store code. Numeric values are exact rationals (math/big.Rat): the alphabets only contain
// dyadic rationals of small magnitude, so every sum is exact in float64/decimal as well.
package refmodel

import (
	"bytes"
	"fmt"
	"math/big"
	"sort"
	"strings"
)

type Combo struct {
	Policy string `json:"policy"` // set | set_if_not_exists | append | add | min | max | set_sum
	VT     string `json:"vt"`     // int64 | float64 | bigint | bigdecimal | bigfloat | bytes | string | proto:x
}

func (c Combo) String() string { return c.Policy + ":" + c.VT }

// Numeric reports whether values are compared as numbers.
func (c Combo) Numeric() bool {
	switch c.Policy {
	case "add", "min", "max", "set_sum":
		return true
	}
	return false
}

// AllCombos: the 37 combinations of manifest.validateStoreBuilder (+ set_sum:bigfloat which the host interface and Merge accept).
func AllCombos() []Combo {
	var out []Combo
	for _, p := range []string{"set", "set_if_not_exists"} {
		for _, vt := range []string{"bytes", "string", "proto:x.Y", "bigdecimal", "bigfloat", "bigint", "int64", "float64"} {
			out = append(out, Combo{p, vt})
		}
	}
	for _, vt := range []string{"bytes", "string"} {
		out = append(out, Combo{"append", vt})
	}
	for _, p := range []string{"add", "min", "max"} {
		for _, vt := range []string{"int64", "float64", "bigint", "bigdecimal", "bigfloat"} {
			out = append(out, Combo{p, vt})
		}
	}
	for _, vt := range []string{"int64", "float64", "bigint", "bigdecimal"} {
		out = append(out, Combo{"set_sum", vt})
	}
	return out
}

// QuickCombos: one representative value type per distinct code path of the write path and of Merge.
func CoreCombos() []Combo {
	return []Combo{
		{"set", "bytes"}, {"set_if_not_exists", "string"}, {"append", "bytes"},
		{"add", "int64"}, {"add", "float64"}, {"add", "bigint"}, {"add", "bigdecimal"}, {"add", "bigfloat"},
		{"min", "int64"}, {"min", "float64"}, {"min", "bigint"}, {"min", "bigdecimal"}, {"min", "bigfloat"},
		{"max", "int64"}, {"max", "float64"}, {"max", "bigint"}, {"max", "bigdecimal"}, {"max", "bigfloat"},
		{"set_sum", "int64"}, {"set_sum", "float64"}, {"set_sum", "bigint"}, {"set_sum", "bigdecimal"},
	}
}

// Op is one store operation of a block. T: "w" = the policy's write, "d" = delete_prefix (K is the prefix).
// V: raw bytes for set/set_if_not_exists/append; decimal text for add/min/max; "set:<num>" or "sum:<num>" for set_sum.
type Op struct {
	T string `json:"t"`
	K string `json:"k"`
	V string `json:"v,omitempty"`
	O uint64 `json:"o"`
}

func (o Op) String() string {
	if o.T == "d" {
		return fmt.Sprintf("del(%q)@%d", o.K, o.O)
	}
	return fmt.Sprintf("%s=%s@%d", o.K, o.V, o.O)
}

// Val is a typed value: bytes, or an exact number.
type Val struct {
	B []byte
	N *big.Rat
}

func (v *Val) String() string {
	if v == nil {
		return "<absent>"
	}
	if v.N != nil {
		return v.N.RatString()
	}
	return fmt.Sprintf("%q", v.B)
}

func (v *Val) Equal(o *Val) bool {
	if v == nil || o == nil {
		return v == nil && o == nil
	}
	if (v.N == nil) != (o.N == nil) {
		return false
	}
	if v.N != nil {
		return v.N.Cmp(o.N) == 0
	}
	return bytes.Equal(v.B, o.B)
}

// ParseImpl turns bytes stored by the implementation into a typed value for the combo ("the same typed value").
func ParseImpl(c Combo, b []byte) (*Val, error) {
	if !c.Numeric() {
		return &Val{B: append([]byte{}, b...)}, nil
	}
	s := string(b)
	if c.Policy == "set_sum" && (strings.HasPrefix(s, "set:") || strings.HasPrefix(s, "sum:")) {
		s = s[4:]
	}
	r, ok := new(big.Rat).SetString(s)
	if !ok {
		return nil, fmt.Errorf("value %q is not a number", string(b))
	}
	return &Val{N: r}, nil
}

func num(s string) *big.Rat {
	r, ok := new(big.Rat).SetString(s)
	if !ok {
		panic("refmodel: bad numeric literal " + s)
	}
	return r
}

// Change is one recorded effect of an operation.
type Change struct {
	Ord    uint64
	Key    string
	Before *Val
	After  *Val
}

type Store struct {
	C  Combo
	KV map[string]*Val
	// record of the current block
	Pre     map[string]*Val
	Changes []Change
}

func NewStore(c Combo) *Store { return &Store{C: c, KV: map[string]*Val{}, Pre: map[string]*Val{}} }

func (s *Store) Clone() *Store {
	n := NewStore(s.C)
	for k, v := range s.KV {
		n.KV[k] = v
	}
	return n
}

// ApplyBlock: stable sort by ordinal, apply one by one, record changes. The previous record is dropped.
func (s *Store) ApplyBlock(ops []Op) {
	s.Pre = map[string]*Val{}
	for k, v := range s.KV {
		s.Pre[k] = v
	}
	s.Changes = nil
	sorted := append([]Op{}, ops...)
	sort.SliceStable(sorted, func(i, j int) bool { return sorted[i].O < sorted[j].O })
	for _, op := range sorted {
		s.apply(op)
	}
}

func (s *Store) apply(op Op) {
	if op.T == "d" {
		var keys []string
		for k := range s.KV {
			if strings.HasPrefix(k, op.K) {
				keys = append(keys, k)
			}
		}
		sort.Strings(keys)
		for _, k := range keys {
			s.Changes = append(s.Changes, Change{op.O, k, s.KV[k], nil})
			delete(s.KV, k)
		}
		return
	}
	before := s.KV[op.K]
	var after *Val
	switch s.C.Policy {
	case "set":
		after = &Val{B: []byte(op.V)}
	case "set_if_not_exists":
		if before != nil {
			return
		}
		after = &Val{B: []byte(op.V)}
	case "append":
		if before == nil {
			after = &Val{B: []byte(op.V)}
		} else {
			after = &Val{B: append(append([]byte{}, before.B...), op.V...)}
		}
	case "add":
		if before == nil {
			after = &Val{N: num(op.V)}
		} else {
			after = &Val{N: new(big.Rat).Add(before.N, num(op.V))}
		}
	case "min":
		v := num(op.V)
		if before == nil || v.Cmp(before.N) < 0 {
			after = &Val{N: v}
		} else {
			after = before
		}
	case "max":
		v := num(op.V)
		if before == nil || v.Cmp(before.N) > 0 {
			after = &Val{N: v}
		} else {
			after = before
		}
	case "set_sum":
		v := num(op.V[4:])
		if strings.HasPrefix(op.V, "set:") || before == nil {
			after = &Val{N: v}
		} else {
			after = &Val{N: new(big.Rat).Add(before.N, v)}
		}
	default:
		panic("refmodel: unknown policy " + s.C.Policy)
	}
	s.Changes = append(s.Changes, Change{op.O, op.K, before, after})
	s.KV[op.K] = after
}

// First / Last / At: by definition from the record.
func (s *Store) First(k string) *Val { return s.Pre[k] }
func (s *Store) Last(k string) *Val  { return s.KV[k] }
func (s *Store) At(ord uint64, k string) *Val {
	v := s.Pre[k]
	for _, ch := range s.Changes { // changes are in stable ordinal order
		if ch.Ord > ord {
			break
		}
		if ch.Key == k {
			v = ch.After
		}
	}
	return v
}

func (s *Store) Keys() []string {
	var ks []string
	for k := range s.KV {
		ks = append(ks, k)
	}
	sort.Strings(ks)
	return ks
}

func (s *Store) Dump() string {
	var sb strings.Builder
	for _, k := range s.Keys() {
		fmt.Fprintf(&sb, "%s=%s ", k, s.KV[k])
	}
	return sb.String()
}
