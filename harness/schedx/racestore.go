package schedx

import (
	"context"
	"io"
	"runtime"
	"strings"
	"sync/atomic"

	"github.com/streamingfast/dstore"
)

// raceStore decides the two-way load race of stage.getPartialOrFullKV (partial store of a segment vs the full snapshot
// at the segment's end, loaded concurrently, first success wins) instead of leaving it to goroutine timing.
// It wraps the tier1-side store handed to BuildParallelProcessor; tier2 jobs open their own stores.
//
//	fullWins:  while the full snapshot with the same end block exists, opening the partial blocks until its context is
//	           cancelled (getPartialOrFullKV cancels it as soon as the full store is loaded).
//	!fullWins: opening a full snapshot *from inside that race* (recognised by the caller's stack) blocks the same way
//	           while the partial with the same end block exists, so the partial wins. Other loads of a full snapshot
//	           (the store at the start of the segment) are not part of a race and go straight through. No timer is
//	           involved in either mode: the loser is released by the winner's cancel.
//
// RacesDecided counts the loads this store held back so that the other side of the race wins.
var RacesDecided int64

type raceStore struct {
	dstore.Store
	fullWins bool
}

func (r *raceStore) SubStore(p string) (dstore.Store, error) {
	s, err := r.Store.SubStore(p)
	if err != nil {
		return nil, err
	}
	return &raceStore{Store: s, fullWins: r.fullWins}, nil
}

// sibling reports whether a file with the same end block and the given suffix exists next to name.
func (r *raceStore) sibling(ctx context.Context, name, suffix string) bool {
	if len(name) < 11 {
		return false
	}
	found := false
	r.Store.Walk(ctx, name[:11], func(f string) error {
		if strings.HasSuffix(f, suffix) {
			found = true
			return dstore.StopIteration
		}
		return nil
	})
	return found
}

func (r *raceStore) OpenObject(ctx context.Context, name string) (io.ReadCloser, error) {
	switch {
	case strings.HasSuffix(name, ".partial") && r.fullWins:
		if r.sibling(ctx, name, ".kv") {
			atomic.AddInt64(&RacesDecided, 1)
			<-ctx.Done()
			return nil, ctx.Err()
		}
	case strings.HasSuffix(name, ".kv") && !r.fullWins:
		if inLoadRace() && r.sibling(ctx, name, ".partial") {
			atomic.AddInt64(&RacesDecided, 1)
			<-ctx.Done()
			return nil, ctx.Err()
		}
	}
	return r.Store.OpenObject(ctx, name)
}

// inLoadRace reports whether the calling goroutine is the full-snapshot loader started by stage.getPartialOrFullKV.
func inLoadRace() bool {
	pcs := make([]uintptr, 32)
	n := runtime.Callers(2, pcs)
	frames := runtime.CallersFrames(pcs[:n])
	for {
		f, more := frames.Next()
		if strings.Contains(f.Function, "stage.getPartialOrFullKV") {
			return true
		}
		if !more {
			return false
		}
	}
}
