package schedx

import (
	"context"
	"io"
	"runtime"
	"strings"
	"sync"
	"sync/atomic"
	"time"

	"github.com/streamingfast/dstore"
)

// raceStore decides the two-way load race of stage.getPartialOrFullKV (partial store of a segment vs the full snapshot
// at the segment's end, loaded concurrently, first success wins) instead of leaving it to goroutine timing.
// It wraps the tier1-side store handed to BuildParallelProcessor; tier2 jobs open their own stores.
//
//	fullWins:  while the full snapshot with the same end block exists, opening the partial blocks until its context is
//	           cancelled (getPartialOrFullKV cancels it as soon as the full store is loaded).
//	!fullWins: opening a full snapshot *from inside that race* (recognised by the caller's stack) blocks the same way
//	           while the partial with the same end block exists, so the partial wins. Other loads of a full snapshot
//	           (the store at the start of the segment) are not part of a race and go straight through. No timer is
//	           involved in either mode: the loser is released by the winner's cancel.
//
// RacesDecided counts the loads this store held back so that the other side of the race wins.
var RacesDecided int64

type raceStore struct {
	dstore.Store
	fullWins bool
	sub      string       // path below the tagged store ("<module hash>/states")
	late     *lateLoaders // non-nil: the losing full-snapshot load is not abandoned, it completes late (see lateLoaders)
}

// lateLoaders models the third outcome of the load race: the partial wins, and the losing goroutine - already reading
// the full snapshot, a read that the winner's cancel does not interrupt - finishes *later*: getStore then writes the
// module's in-memory store and its block label while the squasher has moved on. The load is parked inside OpenObject
// and released at the one point where the write lands between two steps of a later merge of the same module: when that
// merge (which already fetched its base store) opens its own partial. The release waits until the parked load's write
// goroutine has ended (it ends right after getStore returned), so the placement is deterministic.
type lateLoaders struct {
	mu        sync.Mutex
	parked    map[string][]*parkedLoad // by substore path
	Released  int64
	Unsettled int64 // releases whose effect did not become visible within the settle limit (the race was not placed)
	closed    bool
}

type parkedLoad struct {
	name    string
	gid     string        // "goroutine N " of the loading goroutine: it ends right after getStore returned
	release chan bool     // true: complete the load; false: the world is being torn down
	closed  chan struct{} // closed when the loader has read the object and closed its reader
}

// signalCloser tells when the loader is done reading.
type signalCloser struct {
	io.ReadCloser
	once sync.Once
	ch   chan struct{}
}

func (s *signalCloser) Close() error {
	err := s.ReadCloser.Close()
	s.once.Do(func() { close(s.ch) })
	return err
}

func goroutineID() string {
	buf := make([]byte, 64)
	buf = buf[:runtime.Stack(buf, false)]
	f := strings.Fields(string(buf))
	if len(f) < 2 {
		return ""
	}
	return "goroutine " + f[1] + " "
}

func goroutineAlive(gid string) bool {
	buf := make([]byte, 1<<20)
	for {
		n := runtime.Stack(buf, true)
		if n < len(buf) {
			buf = buf[:n]
			break
		}
		buf = make([]byte, 2*len(buf))
	}
	return strings.HasPrefix(string(buf), gid) || strings.Contains(string(buf), "\n"+gid)
}

func (l *lateLoaders) park(sub, name string) (*parkedLoad, bool) {
	p := &parkedLoad{name: name, release: make(chan bool, 1), gid: goroutineID(), closed: make(chan struct{})}
	l.mu.Lock()
	if l.closed {
		l.mu.Unlock()
		return p, false
	}
	l.parked[sub] = append(l.parked[sub], p)
	l.mu.Unlock()
	return p, <-p.release
}

// releaseEarlier completes the parked loads of sub that belong to an earlier segment than name and waits for their effect.
func (l *lateLoaders) releaseEarlier(sub, name string) {
	l.mu.Lock()
	var rel, keep []*parkedLoad
	for _, p := range l.parked[sub] {
		if p.name[:10] < name[:10] {
			rel = append(rel, p)
		} else {
			keep = append(keep, p)
		}
	}
	l.parked[sub] = keep
	l.mu.Unlock()
	for _, p := range rel {
		p.release <- true
		atomic.AddInt64(&l.Released, 1)
		// the loading goroutine ends right after getStore returned (one buffered channel send later): once it is gone,
		// whatever it writes to the module state has been written
		deadline := time.Now().Add(5 * time.Second)
		select {
		case <-p.closed: // the object has been read; what remains is decoding and getStore's two assignments
		case <-time.After(5 * time.Second):
		}
		for p.gid != "" && goroutineAlive(p.gid) {
			if time.Now().After(deadline) {
				atomic.AddInt64(&l.Unsettled, 1)
				break
			}
			runtime.Gosched()
			time.Sleep(200 * time.Microsecond)
		}
	}
}

func (l *lateLoaders) close() {
	l.mu.Lock()
	l.closed = true
	for _, ps := range l.parked {
		for _, p := range ps {
			p.release <- false
		}
	}
	l.parked = map[string][]*parkedLoad{}
	l.mu.Unlock()
}

func (r *raceStore) SubStore(p string) (dstore.Store, error) {
	s, err := r.Store.SubStore(p)
	if err != nil {
		return nil, err
	}
	sub := p
	if r.sub != "" {
		sub = r.sub + "/" + p
	}
	return &raceStore{Store: s, fullWins: r.fullWins, sub: sub, late: r.late}, nil
}

// sibling reports whether a file with the same end block and the given suffix exists next to name.
func (r *raceStore) sibling(ctx context.Context, name, suffix string) bool {
	if len(name) < 11 {
		return false
	}
	found := false
	r.Store.Walk(ctx, name[:11], func(f string) error {
		if strings.HasSuffix(f, suffix) {
			found = true
			return dstore.StopIteration
		}
		return nil
	})
	return found
}

func (r *raceStore) OpenObject(ctx context.Context, name string) (io.ReadCloser, error) {
	switch {
	case strings.HasSuffix(name, ".partial") && r.fullWins:
		if r.sibling(ctx, name, ".kv") {
			atomic.AddInt64(&RacesDecided, 1)
			<-ctx.Done()
			return nil, ctx.Err()
		}
	case strings.HasSuffix(name, ".partial") && r.late != nil:
		if len(name) > 10 {
			r.late.releaseEarlier(r.sub, name)
		}
	case strings.HasSuffix(name, ".kv") && !r.fullWins:
		if inLoadRace() && r.sibling(ctx, name, ".partial") {
			atomic.AddInt64(&RacesDecided, 1)
			// only a load that has something to read can complete late: a snapshot that does not exist yet answers
			// "not found" at once, and the retry that follows sleeps on the cancelled context
			if exists, _ := r.Store.FileExists(ctx, name); r.late != nil && len(name) > 10 && exists {
				p, ok := r.late.park(r.sub, name)
				if !ok {
					return nil, context.Canceled
				}
				rc, err := r.Store.OpenObject(context.Background(), name) // the read was in flight: the cancel does not stop it
				if err != nil {
					close(p.closed)
					return nil, err
				}
				return &signalCloser{ReadCloser: rc, ch: p.closed}, nil
			}
			<-ctx.Done()
			return nil, ctx.Err()
		}
	}
	return r.Store.OpenObject(ctx, name)
}

// inLoadRace reports whether the calling goroutine is the full-snapshot loader started by stage.getPartialOrFullKV.
func inLoadRace() bool {
	pcs := make([]uintptr, 32)
	n := runtime.Callers(2, pcs)
	frames := runtime.CallersFrames(pcs[:n])
	for {
		f, more := frames.Next()
		if strings.Contains(f.Function, "stage.getPartialOrFullKV") {
			return true
		}
		if !more {
			return false
		}
	}
}
