package schedx

import (
	"fmt"
	"runtime"
	"sort"
	"strings"
	"sync"
	"time"
)

// Check is evaluated in every state (safety) and in terminal states.
type Oracle struct {
	// Terminal returns "" when the terminal state is correct.
	Terminal func(w *World) string
	// Every returns "" when the state reached by a transition is acceptable; evaluated on every transition (it may
	// look at state that is not part of the state key, such as the squasher's in-memory stores).
	Every func(w *World) string
}

type Result struct {
	States      int
	Transitions int
	Terminals   int
	MaxDepth    int
	Outcomes    map[string]int // distinct terminal outcomes (must be 1)
	Violation   string         // first violation (shortest path first)
	Path        []string
	Exhaustive  bool
	RealJobRuns int
	MemoHits    int
	Replays     int
	SamplePath  []string
	Deadlocks   int
	NoExit      int // states from which no terminal state is reachable
}

type Explorer struct {
	Cfg       *Config
	Oracle    Oracle
	MaxStates int
	Deadline  time.Time
	Workers   int
}

func replay(cfg *Config, memo *Memo, path []string) (*World, error) {
	w, err := NewWorld(cfg, memo)
	if err != nil {
		return nil, err
	}
	for _, id := range path {
		if err := w.Step(id); err != nil {
			w.Close()
			return nil, fmt.Errorf("harness: replay diverged: %w", err)
		}
	}
	return w, nil
}

type nodeInfo struct {
	path     []string
	terminal bool
}

// BFS explores every reachable state (level by level, levels in parallel), deduplicating on World.Key.
func (x *Explorer) BFS() Result {
	res := Result{Outcomes: map[string]int{}, Exhaustive: true}
	memo := NewMemo()
	workers := x.Workers
	if workers == 0 {
		workers = runtime.NumCPU()
	}
	root, err := NewWorld(x.Cfg, memo)
	if err != nil {
		res.Violation = "cannot build the processor: " + err.Error()
		return res
	}
	var mu sync.Mutex
	visited := map[string]*nodeInfo{}
	raw := map[string]string{}
	edges := map[string][]string{} // reverse edges: to -> from
	fail := func(v string, path []string) {
		mu.Lock()
		if res.Violation == "" || len(path) < len(res.Path) {
			res.Violation, res.Path = v, append([]string{}, path...)
		}
		mu.Unlock()
	}
	// history checks depend on the path, not only on the state: they are evaluated on every transition, before
	// the successor is deduplicated (two paths can reach the same state key with different histories)
	checkHistory := func(w *World, path []string) {
		if w.Violation != "" {
			fail(w.Violation+" | state: "+w.Describe(), path)
		}
		if x.Oracle.Every != nil {
			if v := x.Oracle.Every(w); v != "" {
				fail(v, path)
			}
		}
		for st, segs := range w.MergeLog {
			for i := 1; i < len(segs); i++ {
				if segs[i] <= segs[i-1] {
					fail(fmt.Sprintf("stage %d merged segments %v: not strictly increasing / not once", st, segs), path)
				}
			}
		}
	}
	check := func(w *World, path []string) (terminal bool) {
		checkHistory(w, path)
		if w.Quit {
			out := "ok"
			if w.QuitErr != nil {
				out = "error: " + w.QuitErr.Error()
				fail("request ends with an error under this schedule: "+w.QuitErr.Error(), path)
			} else if x.Oracle.Terminal != nil {
				if v := x.Oracle.Terminal(w); v != "" {
					out = "wrong: " + v
					fail(v, path)
				}
			}
			mu.Lock()
			res.Outcomes[out]++
			res.Terminals++
			mu.Unlock()
			return true
		}
		if len(w.Enabled()) == 0 {
			mu.Lock()
			res.Deadlocks++
			mu.Unlock()
			fail("deadlock: no event is enabled and the scheduler has not quit | state: "+w.Describe(), path)
		}
		return false
	}
	k0 := root.Key()
	visited[k0] = &nodeInfo{path: nil}
	visited[k0].terminal = check(root, nil)
	root.Close()
	res.States = 1
	frontier := []string{k0}
	depth := 0
	for len(frontier) > 0 {
		depth++
		var next []string
		var nmu sync.Mutex
		jobs := make(chan string, len(frontier))
		for _, k := range frontier {
			jobs <- k
		}
		close(jobs)
		var wg sync.WaitGroup
		stop := false
		for i := 0; i < workers; i++ {
			wg.Add(1)
			go func() {
				defer wg.Done()
				for k := range jobs {
					mu.Lock()
					ni := visited[k]
					capped := stop
					mu.Unlock()
					if capped || ni.terminal {
						continue
					}
					w, err := replay(x.Cfg, memo, ni.path)
					mu.Lock()
					res.Replays++
					mu.Unlock()
					if err != nil {
						fail(err.Error(), ni.path)
						continue
					}
					if got := w.Key(); got != k {
						mu.Lock()
						orig := raw[k]
						mu.Unlock()
						fail("harness: replaying a recorded path gives a different state (nondeterminism not captured):\n  recorded "+orig+"\n  replayed "+w.RawKey, ni.path)
						w.Close()
						continue
					}
					enabled := w.Enabled()
					w.Close()
					for _, ev := range enabled {
						path := append(append([]string{}, ni.path...), ev)
						w2, err := replay(x.Cfg, memo, path)
						mu.Lock()
						res.Replays++
						res.Transitions++
						mu.Unlock()
						if err != nil {
							fail(err.Error(), path)
							continue
						}
						checkHistory(w2, path)
						k2 := w2.Key()
						mu.Lock()
						edges[k2] = append(edges[k2], k)
						_, seen := visited[k2]
						if !seen {
							raw[k2] = w2.RawKey
							visited[k2] = &nodeInfo{path: path}
							res.States++
							if len(path) > res.MaxDepth {
								res.MaxDepth = len(path)
								res.SamplePath = path
							}
							if x.MaxStates > 0 && res.States >= x.MaxStates {
								stop = true
								res.Exhaustive = false
							}
							if !x.Deadline.IsZero() && time.Now().After(x.Deadline) {
								stop = true
								res.Exhaustive = false
							}
						}
						mu.Unlock()
						if !seen {
							term := check(w2, path)
							mu.Lock()
							visited[k2].terminal = term
							mu.Unlock()
							nmu.Lock()
							next = append(next, k2)
							nmu.Unlock()
						}
						w2.Close()
					}
				}
			}()
		}
		wg.Wait()
		mu.Lock()
		failed := res.Violation != ""
		capped := stop
		mu.Unlock()
		if failed || capped {
			break // shortest counter-example first: the level is complete
		}
		sort.Strings(next)
		frontier = next
	}
	// liveness: from every explored state a terminal state must be reachable (only meaningful when exhaustive)
	if res.Violation == "" && res.Exhaustive {
		canExit := map[string]bool{}
		var stack []string
		for k, ni := range visited {
			if ni.terminal {
				canExit[k] = true
				stack = append(stack, k)
			}
		}
		for len(stack) > 0 {
			k := stack[len(stack)-1]
			stack = stack[:len(stack)-1]
			for _, from := range edges[k] {
				if !canExit[from] {
					canExit[from] = true
					stack = append(stack, from)
				}
			}
		}
		var worst *nodeInfo
		for k, ni := range visited {
			if !canExit[k] {
				res.NoExit++
				if worst == nil || len(ni.path) < len(worst.path) {
					worst = ni
				}
			}
		}
		if worst != nil {
			res.Violation = fmt.Sprintf("livelock: %d states from which the scheduler can never quit (e.g. after this path)", res.NoExit)
			res.Path = worst.path
		}
		if len(res.Outcomes) > 1 {
			var outs []string
			for o := range res.Outcomes {
				outs = append(outs, o)
			}
			sort.Strings(outs)
			res.Violation = "terminal outcome depends on the schedule: " + strings.Join(outs, " || ")
		}
	}
	res.RealJobRuns, res.MemoHits = memo.RealRuns, memo.Hits
	return res
}
