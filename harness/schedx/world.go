// Package schedx: engine E2 — explicit-state model checking of the segment scheduler on the real code.
//
// loop.EventLoop.Run (goroutines + channel) is replaced by an explicit choice of which pending event happens next;
// everything else is the implementation: the Scheduler, Stages, WorkerPool and ExecOutWalker are built by the real
// orchestrator.BuildParallelProcessor from a real exec.Graph, plan.RequestPlan and store/exec-out configs; a job is
// the real tier2 processRange run in-process on a scripted program, writing real files; merges are the real multiSquash.
package schedx

import (
	"context"
	"crypto/sha1"
	"encoding/hex"
	"errors"
	"fmt"
	"os"
	"path/filepath"
	"reflect"
	"runtime"
	"sort"
	"strings"
	"sync"
	"sync/atomic"
	"time"

	"github.com/streamingfast/dmetering"
	"github.com/streamingfast/dstore"
	"go.uber.org/zap"

	"github.com/streamingfast/substreams"
	"github.com/streamingfast/substreams/metrics"
	"github.com/streamingfast/substreams/orchestrator"
	oexecout "github.com/streamingfast/substreams/orchestrator/execout"
	"github.com/streamingfast/substreams/orchestrator/loop"
	"github.com/streamingfast/substreams/orchestrator/plan"
	"github.com/streamingfast/substreams/orchestrator/response"
	"github.com/streamingfast/substreams/orchestrator/scheduler"
	"github.com/streamingfast/substreams/orchestrator/stage"
	"github.com/streamingfast/substreams/orchestrator/work"
	pbsubstreamsrpc "github.com/streamingfast/substreams/pb/sf/substreams/rpc/v2"
	pbsubstreams "github.com/streamingfast/substreams/pb/sf/substreams/v1"
	"github.com/streamingfast/substreams/pipeline"
	"github.com/streamingfast/substreams/pipeline/exec"
	"github.com/streamingfast/substreams/reqctx"
	"github.com/streamingfast/substreams/storage/execout"
	"github.com/streamingfast/substreams/storage/store"

	"verifharness/sysrun"
)

// Config: one request on one initial cache with a number of workers.
type Config struct {
	MergeAtIssue bool // run merge bodies when the command is issued instead of as separate events (the first version of the explorer)
	Modules      *pbsubstreams.Modules
	Output       string
	Prod         bool
	Seg          uint64
	Start        uint64
	Stop         uint64
	Final        int64 // -1 unknown
	Workers      int
	Initial      map[string][]byte // initial cache: relative path under test.store -> bytes
	PartialWins  bool              // outcome of the partial-vs-full load race in the squasher (default: the full snapshot wins when it exists)
	LateLoader   bool              // with PartialWins: the losing full-snapshot load completes late, during a later merge of the same module (racestore.go)
	Cap          int               // multiplicity cap of idempotent messages in the state key (0 = exact)
}

type nullEmitter struct{}

func (nullEmitter) Emit(context.Context, dmetering.Event) {}
func (nullEmitter) Shutdown(error)                        {}

type event struct {
	mergeStage int      // merge body parked at its first snapshot open (-1: none)
	mergeCmd   loop.Cmd // deferred body of a merge command
	id         string   // canonical identity (what the explorer chooses by)
	msg        loop.Msg // message to deliver (nil for job bodies)
	job        *jobRec  // job body to run
	seq        int
}

type jobRec struct {
	unit   stage.Unit
	start  uint64
	worker *xWorker
	ctx    context.Context
}

type jobMarker struct{}

type xWorker struct {
	id int
	w  *World
}

func (x *xWorker) ID() string { return fmt.Sprintf("x%d", x.id) }
func (x *xWorker) Work(ctx context.Context, unit stage.Unit, startBlock uint64, moduleNames []string, upstream *response.Stream) loop.Cmd {
	return func() loop.Msg {
		x.w.pending = append(x.w.pending, &event{mergeStage: -1, id: fmt.Sprintf("job-body{seg=%d,stage=%d}", unit.Segment, unit.Stage), job: &jobRec{unit: unit, start: startBlock, worker: x, ctx: ctx}})
		x.w.dispatched = append(x.w.dispatched, unit)
		return jobMarker{}
	}
}

// World: one controlled execution.
type World struct {
	stats       *metrics.Stats // closed with the world: its rate counter owns a janitor goroutine
	late        *lateLoaders
	cfg         *Config
	Dir         string
	ctx         context.Context
	cancel      context.CancelFunc
	sched       *scheduler.Scheduler
	pp          *orchestrator.ParallelProcessor
	plan        *plan.RequestPlan
	details     *reqctx.RequestDetails
	graph       *exec.Graph
	pending     []*event
	Data        []sysrun.DataMsg
	dispatched  []stage.Unit
	inflight    map[stage.Unit]bool
	MergeLog    map[int][]int
	Quit        bool
	QuitErr     error
	Trace       []string
	jobsRun     int
	memo        *Memo
	Violation   string // safety violation detected while stepping
	NoScheduler bool
	RawKey      string
}

// Memo: job bodies memoised on (unit, digest of every visible file): first execution is the real tier2 run, a replay
// writes the recorded files back.
type Memo struct {
	mu       sync.Mutex
	jobs     map[string]*jobResult
	RealRuns int
	Hits     int
}

type jobResult struct {
	files   map[string][]byte // files created or changed by the job
	removed []string
	err     string
}

func NewMemo() *Memo { return &Memo{jobs: map[string]*jobResult{}} }

func (w *World) respFunc(respAny substreams.ResponseFromAnyTier) error {
	resp, ok := respAny.(*pbsubstreamsrpc.Response)
	if !ok {
		return nil
	}
	if d := resp.GetBlockScopedData(); d != nil {
		dm := sysrun.DataMsg{Num: d.Clock.Number, ID: d.Clock.Id, Cursor: d.Cursor}
		if d.Output != nil && d.Output.MapOutput != nil {
			dm.Payload = string(d.Output.MapOutput.Value)
		}
		w.Data = append(w.Data, dm)
	}
	return nil
}

func (c *Config) sysCfg(dir string) *sysrun.Config {
	head := c.Stop + 3
	chain := sysrun.LinearChain{Head: head, Final: head}
	return &sysrun.Config{Modules: c.Modules, Output: c.Output, Prod: c.Prod, Seg: c.Seg, Start: int64(c.Start), Stop: c.Stop, Dir: dir, Source: chain}
}

// NewWorld builds the real processor on a fresh copy of the initial cache and runs the scheduler's Init command.
func NewWorld(cfg *Config, memo *Memo) (w *World, err error) {
	w = &World{cfg: cfg, memo: memo, inflight: map[stage.Unit]bool{}, MergeLog: map[int][]int{}}
	w.Dir = sysrun.Scratch("schedx")
	for rel, b := range cfg.Initial {
		p := filepath.Join(w.Dir, "test.store", rel)
		os.MkdirAll(filepath.Dir(p), 0o755)
		if err := os.WriteFile(p, b, 0o644); err != nil {
			return nil, err
		}
	}
	base, err := dstore.NewStore(filepath.Join(w.Dir, "test.store"), "zst", "zstd", true)
	if err != nil {
		return nil, err
	}
	tagStore, err := base.SubStore("tag")
	if err != nil {
		return nil, err
	}
	rs := &raceStore{Store: tagStore, fullWins: !cfg.PartialWins}
	if cfg.PartialWins && cfg.LateLoader {
		w.late = &lateLoaders{parked: map[string][]*parkedLoad{}}
		rs.late = w.late
	}
	var cacheStore dstore.Store = rs
	ctx, cancel := context.WithCancel(context.Background())
	w.cancel = cancel
	ctx = reqctx.WithLogger(ctx, zap.NewNop())
	ctx = dmetering.WithBytesMeter(ctx)
	ctx = reqctx.WithEmitter(ctx, nullEmitter{})
	req := &pbsubstreamsrpc.Request{StartBlockNum: int64(cfg.Start), StopBlockNum: cfg.Stop, Modules: cfg.Modules, OutputModule: cfg.Output, ProductionMode: cfg.Prod}
	getLib := func() (uint64, error) {
		if cfg.Final < 0 {
			return 0, errors.New("no final block")
		}
		return uint64(cfg.Final), nil
	}
	details, _, err := pipeline.BuildRequestDetails(ctx, req, getLib, nil, func() (uint64, error) { return cfg.Stop + 3, nil }, cfg.Seg)
	if err != nil {
		return nil, fmt.Errorf("request details: %w", err)
	}
	details.MaxParallelJobs = uint64(cfg.Workers)
	w.details = details
	ctx = reqctx.WithRequest(ctx, details)
	w.stats = metrics.NewReqStats(&metrics.Config{OutputModule: cfg.Output, ProductionMode: cfg.Prod}, zap.NewNop())
	ctx = reqctx.WithReqStats(ctx, w.stats)
	ctx = reqctx.WithTier2RequestParameters(ctx, sysrun.Tier2Params(cfg.sysCfg(w.Dir)))
	w.ctx = ctx
	g, err := exec.NewOutputModuleGraph(cfg.Output, cfg.Prod, cfg.Modules, 0)
	if err != nil {
		return nil, err
	}
	w.graph = g
	if err := g.ValidateRequestStartBlock(details.ResolvedStartBlockNum); err != nil {
		return nil, err
	}
	execoutConfigs, err := execout.NewConfigs(cacheStore, g.UsedModules(), g.ModuleHashes(), cfg.Seg, 0, zap.NewNop())
	if err != nil {
		return nil, err
	}
	storeConfigs, err := store.NewConfigMap(cacheStore, g.Stores(), g.ModuleHashes(), 0)
	if err != nil {
		return nil, err
	}
	scheduleStores := g.StagedUsedModules()[0].LastLayer().IsStoreLayer()
	var lowestStores uint64
	if scheduleStores {
		lowestStores = *g.LowestStoresInitBlock()
	}
	p, err := plan.BuildTier1RequestPlan(details.ProductionMode, cfg.Seg, g.LowestInitBlock(), lowestStores, details.ResolvedStartBlockNum, details.LinearHandoffBlockNum, details.StopBlockNum, scheduleStores)
	if err != nil {
		return nil, err
	}
	w.plan = p
	if !p.RequiresParallelProcessing() {
		w.NoScheduler = true
		w.Quit = true
		return w, nil
	}
	n := 0
	factory := func(_ *zap.Logger) work.Worker {
		n++
		return &xWorker{id: n, w: w}
	}
	func() {
		defer func() {
			if r := recover(); r != nil {
				err = fmt.Errorf("PANIC while building the processor: %v", r)
			}
		}()
		w.pp, err = orchestrator.BuildParallelProcessor(ctx, p, factory, cfg.Workers, g, execoutConfigs, w.respFunc, storeConfigs)
	}()
	if err != nil {
		return nil, err
	}
	w.sched = w.pp.VerifScheduler()
	w.sched.WorkerPool.VerifEndRampup()
	if v := w.safely(func() { w.exec(w.sched.Init()) }); v != "" {
		w.Violation = v
	}
	w.drain()
	return w, nil
}

var closed int64

// LateReleased / LateUnsettled: late full-snapshot loads completed during a later merge, and those whose effect did not
// become visible within the settle limit (summed over all worlds).
var LateReleased, LateUnsettled int64

func (w *World) Close() {
	if w.late != nil {
		atomic.AddInt64(&LateReleased, atomic.LoadInt64(&w.late.Released))
		atomic.AddInt64(&LateUnsettled, atomic.LoadInt64(&w.late.Unsettled))
		w.late.close()
	}
	if w.cancel != nil {
		w.cancel()
	}
	if w.stats != nil {
		w.stats.LogAndClose()
		w.stats = nil
	}
	os.RemoveAll(w.Dir)
	if atomic.AddInt64(&closed, 1)%2000 == 0 {
		runtime.GC() // lets the finalizers close the files dstore's zstd readers leave open
	}
}

func (w *World) safely(f func()) (violation string) {
	defer func() {
		if r := recover(); r != nil {
			violation = fmt.Sprintf("panic: %v", r)
		}
	}()
	f()
	return ""
}

// drain waits for the asynchronous squasher work (snapshot writes, partial deletions) so that every event starts from
// a quiescent file system.
func (w *World) drain() {
	if w.sched != nil {
		w.sched.Stages.WaitAsyncWork()
	}
}

func describe(msg loop.Msg) string {
	switch m := msg.(type) {
	case work.MsgJobSucceeded:
		return fmt.Sprintf("job-succeeded{seg=%d,stage=%d}", m.Unit.Segment, m.Unit.Stage)
	case work.MsgJobFailed:
		return fmt.Sprintf("job-failed{seg=%d,stage=%d}", m.Unit.Segment, m.Unit.Stage)
	case work.MsgScheduleNextJob:
		return "schedule-next-job"
	case stage.MsgMergeFinished:
		return fmt.Sprintf("merge-finished{seg=%d,stage=%d}", m.Unit.Segment, m.Unit.Stage)
	case stage.MsgMergeFailed:
		return fmt.Sprintf("merge-failed{seg=%d,stage=%d}", m.Unit.Segment, m.Unit.Stage)
	case stage.MsgMergeNotReady:
		return fmt.Sprintf("merge-not-ready{seg=%d,stage=%d}", m.NextUnit.Segment, m.NextUnit.Stage)
	case stage.MsgAllStoresCompleted:
		return "all-stores-completed"
	case oexecout.MsgDownloadSegment:
		return "download-segment"
	case oexecout.MsgFileDownloaded:
		return "file-downloaded"
	case oexecout.MsgFileNotPresent:
		return "file-not-present"
	case oexecout.MsgWalkerCompleted:
		return "walker-completed"
	case loop.QuitMsg:
		return "quit"
	}
	return fmt.Sprintf("%T", msg)
}

// exec runs a command immediately, in issue order; the message it returns becomes pending. Batches and sequences are
// flattened the way loop.EventLoop.update does. A worker's command only registers the job body as a pending event.
func (w *World) exec(cmd loop.Cmd) {
	if cmd == nil {
		return
	}
	if !w.cfg.MergeAtIssue && isMergeCmd(cmd) {
		// the body of a merge (load partial and full store, merge, delete, write) is an explicit event: the unit is
		// already in the Merging state (CmdTryMerge marks it synchronously), the work happens when the explorer says so
		u, ok := w.newMergingUnit()
		if !ok {
			w.Violation = "a merge command was issued but no unit is in the Merging state: CmdTryMerge did not claim the unit synchronously, so a second merge command can claim the same segment"
			return
		}
		w.pending = append(w.pending, &event{mergeStage: u[1], id: fmt.Sprintf("merge-body{seg=%d,stage=%d}", u[0], u[1]), mergeCmd: cmd})
		return
	}
	msg := cmd()
	w.handle(msg)
}

// handle files the message a command returned.
func (w *World) handle(msg loop.Msg) {
	switch m := msg.(type) {
	case nil:
		return
	case jobMarker:
		return
	case loop.BatchMsg:
		for _, c := range m {
			w.exec(c)
		}
	case loop.SequenceMsg:
		for _, c := range m {
			w.exec(c)
		}
	case stage.MsgMergeNotReady:
		// no case in Update's switch: delivered at once, asserted to be a no-op (no command, no state change)
		before := w.sched.Stages.VerifFingerprint() + w.sched.VerifFingerprint()
		c := w.sched.Update(m)
		if after := w.sched.Stages.VerifFingerprint() + w.sched.VerifFingerprint(); c != nil || after != before {
			w.Violation = "harness: MsgMergeNotReady is not a no-op any more; the reduction in schedx.exec must be removed"
		}
	default:
		if dl, ok := msg.(oexecout.MsgDownloadSegment); ok {
			dl.Wait = 0 // a delay is 'delivered later', which the delivery order covers
			msg = dl
		}
		if fn, ok := msg.(oexecout.MsgFileNotPresent); ok {
			fn.NextWait = 0
			msg = fn
		}
		w.push(&event{mergeStage: -1, id: describe(msg), msg: msg})
	}
}

// push adds a pending event. Reduction (Cap > 0): identical wake-up messages (schedule-next-job, download-segment)
// beyond Cap copies are coalesced. Argument: delivering one either only consumes it (no free worker / nothing
// schedulable; walker busy or complete) or acts and re-issues the same message (a dispatch re-issues
// CmdScheduleNextJob, a finished download a new MsgDownloadSegment), every event that can make new work schedulable
// issues one itself, and a delivery that dispatches nothing leaves Stages at a fixed point for the next one; so more
// than two pending copies add no behaviour. Cap = 0 keeps the exact multiset; the thorough tier cross-checks the
// coalesced search against the exact one (same verdict, same set of projected states).
func (w *World) push(e *event) {
	if w.cfg.Cap > 0 && (e.id == "schedule-next-job" || e.id == "download-segment") {
		n := 0
		for _, p := range w.pending {
			if p.id == e.id {
				n++
			}
		}
		if n >= w.cfg.Cap {
			return
		}
	}
	w.pending = append(w.pending, e)
}

// Enabled: canonical ids of the events that can happen next (sorted, de-duplicated: identical messages are interchangeable).
func (w *World) Enabled() []string {
	if w.Quit {
		return nil
	}
	seen := map[string]bool{}
	var out []string
	for _, e := range w.pending {
		if !seen[e.id] {
			seen[e.id] = true
			out = append(out, e.id)
		}
	}
	sort.Strings(out)
	return out
}

func (w *World) take(id string) *event {
	for i, e := range w.pending {
		if e.id == id {
			w.pending = append(w.pending[:i], w.pending[i+1:]...)
			return e
		}
	}
	return nil
}

// Step makes one event happen.
func (w *World) Step(id string) error {
	e := w.take(id)
	if e == nil {
		return fmt.Errorf("event %q is not enabled (pending: %v)", id, w.Enabled())
	}
	w.Trace = append(w.Trace, id)
	if e.job != nil {
		w.runJob(e.job)
		w.drain()
		return nil
	}
	if e.mergeCmd != nil {
		var msg loop.Msg
		if v := w.safely(func() { msg = e.mergeCmd() }); v != "" {
			w.Violation = fmt.Sprintf("running %s: %s", id, v)
		}
		w.handle(msg)
		w.drain()
		return nil
	}
	if q, ok := e.msg.(loop.QuitMsg); ok {
		w.Quit = true
		w.QuitErr = q.VerifErr()
		return nil
	}
	if m, ok := e.msg.(stage.MsgMergeFinished); ok {
		w.MergeLog[m.Unit.Stage] = append(w.MergeLog[m.Unit.Stage], m.Unit.Segment)
	}
	if m, ok := e.msg.(work.MsgJobSucceeded); ok {
		delete(w.inflight, m.Unit)
	}
	if v := w.safely(func() { w.exec(w.sched.Update(e.msg)) }); v != "" {
		w.Violation = fmt.Sprintf("delivering %s: %s", id, v)
	}
	w.drain()
	if n := w.sched.WorkerPool.VerifWorking(); n > w.cfg.Workers {
		w.Violation = fmt.Sprintf("%d jobs in flight with %d workers", n, w.cfg.Workers)
	}
	return nil
}

func (w *World) snapshotFiles() map[string][]byte {
	out := map[string][]byte{}
	for _, f := range sysrun.ListFiles(w.Dir) {
		if strings.HasSuffix(f, ".tmp") {
			continue
		}
		b, err := os.ReadFile(filepath.Join(w.Dir, "test.store", f))
		if err == nil {
			out[f] = b
		}
	}
	return out
}

func digest(files map[string][]byte) string {
	var names []string
	for n := range files {
		names = append(names, n)
	}
	sort.Strings(names)
	h := sha1.New()
	for _, n := range names {
		h.Write([]byte(n))
		h.Write([]byte{0})
		h.Write(files[n])
		h.Write([]byte{0})
	}
	return hex.EncodeToString(h.Sum(nil))
}

func (w *World) runJob(j *jobRec) {
	w.inflight[j.unit] = true
	before := w.snapshotFiles()
	key := fmt.Sprintf("%d/%d/%s", j.unit.Segment, j.unit.Stage, digest(before))
	w.memo.mu.Lock()
	res := w.memo.jobs[key]
	w.memo.mu.Unlock()
	if res == nil {
		request := work.NewRequest(j.ctx, reqctx.Details(j.ctx), j.unit.Stage, j.start)
		err := sysrun.RunTier2(j.ctx, w.cfg.sysCfg(w.Dir), request, nil)
		time.Sleep(0)
		after := w.snapshotFiles()
		res = &jobResult{files: map[string][]byte{}}
		for n, b := range after {
			if ob, ok := before[n]; !ok || string(ob) != string(b) {
				res.files[n] = b
			}
		}
		for n := range before {
			if _, ok := after[n]; !ok {
				res.removed = append(res.removed, n)
			}
		}
		if err != nil {
			res.err = err.Error()
		}
		w.memo.mu.Lock()
		w.memo.jobs[key] = res
		w.memo.RealRuns++
		w.memo.mu.Unlock()
	} else {
		w.memo.mu.Lock()
		w.memo.Hits++
		w.memo.mu.Unlock()
		for n, b := range res.files {
			p := filepath.Join(w.Dir, "test.store", n)
			os.MkdirAll(filepath.Dir(p), 0o755)
			os.WriteFile(p, b, 0o644)
		}
		for _, n := range res.removed {
			os.Remove(filepath.Join(w.Dir, "test.store", n))
		}
	}
	w.jobsRun++
	if res.err != "" {
		m := work.MsgJobFailed{Unit: j.unit, Error: errors.New(res.err)}
		w.pending = append(w.pending, &event{mergeStage: -1, id: describe(m), msg: m})
		return
	}
	m := work.MsgJobSucceeded{Unit: j.unit, Worker: j.worker}
	w.pending = append(w.pending, &event{mergeStage: -1, id: describe(m), msg: m})
}

// Key: canonical state key. It drops only what no future can observe (statistics, wall-clock fields, file bytes:
// a file's decoded content is a function of its name).
func (w *World) Key() string {
	if w.NoScheduler {
		return "no-scheduler"
	}
	var sb strings.Builder
	sb.WriteString(w.sched.Stages.VerifFingerprint())
	sb.WriteString("|")
	sb.WriteString(w.sched.VerifFingerprint())
	sb.WriteString("|pool=")
	sb.WriteString(w.sched.WorkerPool.VerifFingerprint())
	if wk := w.sched.ExecOutWalker; wk != nil {
		_, cur, _ := wk.Progress()
		fmt.Fprintf(&sb, "|walker=%d/%v/%v", cur, wk.IsWorking(), wk.IsCompleted())
	}
	var ids []string
	for _, e := range w.pending {
		ids = append(ids, e.id)
	}
	sort.Strings(ids)
	sb.WriteString("|pending=")
	sb.WriteString(strings.Join(ids, ","))
	sb.WriteString("|files=")
	var fs []string
	for _, f := range sysrun.ListFiles(w.Dir) {
		if !strings.HasSuffix(f, ".tmp") {
			fs = append(fs, f)
		}
	}
	sb.WriteString(strings.Join(fs, ","))
	fmt.Fprintf(&sb, "|data=%d|quit=%v/%v", len(w.Data), w.Quit, w.QuitErr)
	w.RawKey = sb.String()
	h := sha1.Sum([]byte(sb.String()))
	return hex.EncodeToString(h[:])
}

// Describe: readable state for artefacts.
func (w *World) Describe() string {
	if w.NoScheduler {
		return "no parallel processing required"
	}
	return fmt.Sprintf("%s | %s | pool=%s | pending=%v | data=%d", strings.ReplaceAll(w.sched.Stages.VerifFingerprint(), "\n", " / "), w.sched.VerifFingerprint(), w.sched.WorkerPool.VerifFingerprint(), w.Enabled(), len(w.Data))
}

func (w *World) Handoff() uint64          { return w.details.LinearHandoffBlockNum }
func (w *World) Plan() *plan.RequestPlan  { return w.plan }
func (w *World) Dispatched() []stage.Unit { return w.dispatched }

// FinalStores: the store map the linear phase would start from (real Stages.FinalStoreMap), rendered.
func (w *World) FinalStores() (map[string]string, error) {
	if w.plan.LinearPipeline == nil || w.sched == nil {
		return nil, nil
	}
	sm, err := w.sched.FinalStoreMap(w.plan.LinearPipeline.StartBlock)
	if err != nil {
		return nil, err
	}
	out := map[string]string{}
	for name, st := range sm {
		var kvs []string
		st.Iter(func(k string, v []byte) error { kvs = append(kvs, fmt.Sprintf("%s=%s", k, v)); return nil })
		sort.Strings(kvs)
		out[name] = strings.Join(kvs, " ")
	}
	return out, nil
}

// StoreCaches: for every store module the squasher keeps in memory, its name, the block the in-memory store is labelled
// with and its content as sorted "key=value" pairs (hook VerifStoreCache). Read between events only.
func (w *World) StoreCaches() map[string]struct {
	Block uint64
	Dump  string
} {
	out := map[string]struct {
		Block uint64
		Dump  string
	}{}
	if w.sched == nil || w.sched.Stages == nil || w.graph == nil {
		return out
	}
	for _, m := range w.cfg.Modules.Modules {
		if m.GetKindStore() == nil {
			continue
		}
		cached, block, found := w.sched.Stages.VerifStoreCache(w.graph.ModuleHashes().Get(m.Name))
		kv, _ := cached.(*store.FullKV)
		if !found || kv == nil {
			continue
		}
		var kvs []string
		kv.Iter(func(k string, v []byte) error { kvs = append(kvs, fmt.Sprintf("%s=%s", k, v)); return nil })
		sort.Strings(kvs)
		out[m.Name] = struct {
			Block uint64
			Dump  string
		}{block, strings.Join(kvs, " ")}
	}
	return out
}

// BuildStoresEnd: the block up to which the plan builds stores (ok=false when it builds none).
func (w *World) BuildStoresEnd() (uint64, bool) {
	if w.plan == nil || w.plan.BuildStores == nil {
		return 0, false
	}
	return w.plan.BuildStores.ExclusiveEndBlock, true
}

// isMergeCmd recognises the closure returned by Stages.CmdTryMerge for an actual merge by its function symbol.
func isMergeCmd(cmd loop.Cmd) bool {
	f := runtime.FuncForPC(reflect.ValueOf(cmd).Pointer())
	return f != nil && strings.HasSuffix(f.Name(), "stage.(*Stages).CmdTryMerge.func1")
}

// newMergingUnit finds the unit in the Merging state that has no pending merge body yet ({segment, stage}).
func (w *World) newMergingUnit() ([2]int, bool) {
	have := map[[2]int]bool{}
	for _, e := range w.pending {
		if e.mergeCmd != nil {
			var g, st int
			fmt.Sscanf(e.id, "merge-body{seg=%d,stage=%d}", &g, &st)
			have[[2]int{g, st}] = true
		}
	}
	for _, u := range w.sched.Stages.VerifMergingUnits() {
		if !have[u] {
			return u, true
		}
	}
	return [2]int{}, false
}
