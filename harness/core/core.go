// Package core: shared plumbing of every check — tiers, parallel bounded-exhaustive evaluation (engine E1),
// violation artefacts, known-findings matching, evidence files.
package core

import (
	"crypto/sha1"
	"encoding/hex"
	"encoding/json"
	"fmt"
	"os"
	"path/filepath"
	"runtime"
	"runtime/debug"
	"runtime/pprof"
	"sort"
	"strconv"
	"strings"
	"sync"
	"time"
)

// Root is /verif (VERIF_ROOT), Repo is /repo (VERIF_REPO).
func Root() string {
	if r := os.Getenv("VERIF_ROOT"); r != "" {
		return r
	}
	return "/verif"
}
func Repo() string {
	if r := os.Getenv("VERIF_REPO"); r != "" {
		return r
	}
	return "/repo"
}

// Fail describes one violation of a property on one case.
type Fail struct {
	Key  string // canonical class of the failure, matched against known_findings.json
	What string // human readable: expected vs got
}

func Failf(key, format string, args ...any) *Fail {
	return &Fail{Key: key, What: fmt.Sprintf(format, args...)}
}

type Ctx struct {
	Prop        string
	Tier        string // quick | thorough
	Seed        int
	Replay      string
	Args        map[string]string
	Level       string
	start       time.Time
	mu          sync.Mutex
	viol        map[string]*violation // by key
	known       []knownFinding
	Assume      []string
	Cov         map[string]any
	samples     []any
	Deadline    time.Time     // internal deadline: never fails a check, ends with exhaustive:false
	Parallel    int           // worker goroutines of ParallelEnum (0 = NumCPU); whole-system runs mostly wait, so they use more
	CaseTimeout time.Duration // watchdog per case (0 = none): a case running longer is a violation 'hang' (C14, C17)
	capped      bool
}

type violation struct {
	Key   string `json:"key"`
	What  string `json:"what"`
	Case  any    `json:"case"`
	Count int    `json:"count"`
	Order int64  `json:"order"`
	// further failing cases of the same class: re-executed when the representative does not reproduce (a class can mix
	// deterministic cases with timing-dependent ones; one unlucky representative must not silence the class)
	alts []altCase
}

type altCase struct {
	Case any
	What string
}

type knownFinding struct {
	Property string `json:"property"`
	Key      string `json:"key"`
	What     string `json:"what"`
	Status   string `json:"status"` // known | fixed
	Commit   string `json:"commit,omitempty"`
}

func NewCtx(prop string, argv []string) *Ctx {
	c := &Ctx{Prop: prop, Tier: "quick", Args: map[string]string{}, start: time.Now(), viol: map[string]*violation{}, Cov: map[string]any{}}
	if t := os.Getenv("VERIF_TIER"); t == "quick" || t == "thorough" {
		c.Tier = t
	}
	if s := os.Getenv("VERIF_SEED"); s != "" {
		if n, err := strconv.Atoi(s); err == nil {
			c.Seed = n
		}
	}
	for i := 0; i < len(argv); i++ {
		a := argv[i]
		if strings.HasPrefix(a, "--") {
			k := strings.TrimPrefix(a, "--")
			v := "true"
			if eq := strings.IndexByte(k, '='); eq >= 0 {
				v = k[eq+1:]
				k = k[:eq]
			} else if i+1 < len(argv) && !strings.HasPrefix(argv[i+1], "--") {
				v = argv[i+1]
				i++
			}
			c.Args[k] = v
		}
	}
	if t, ok := c.Args["tier"]; ok {
		c.Tier = t
	}
	if r, ok := c.Args["replay"]; ok {
		c.Replay = r
	}
	if c.Tier != "quick" && c.Tier != "thorough" {
		fmt.Fprintf(os.Stderr, "bad tier %q\n", c.Tier)
		os.Exit(2)
	}
	c.loadKnown()
	// internal budget: generous, never a verdict
	budget := 20 * time.Minute
	if c.Tier == "thorough" {
		budget = 100 * time.Minute
	}
	if b, ok := c.Args["budget"]; ok {
		if d, err := time.ParseDuration(b); err == nil {
			budget = d
		}
	}
	c.Deadline = c.start.Add(budget)
	return c
}

func (c *Ctx) Thorough() bool { return c.Tier == "thorough" }

func (c *Ctx) Expired() bool {
	if time.Now().After(c.Deadline) {
		c.mu.Lock()
		c.capped = true
		c.mu.Unlock()
		return true
	}
	return false
}
func (c *Ctx) Capped() bool { c.mu.Lock(); defer c.mu.Unlock(); return c.capped }
func (c *Ctx) SetCapped()   { c.mu.Lock(); c.capped = true; c.mu.Unlock() }

func (c *Ctx) loadKnown() {
	b, err := os.ReadFile(filepath.Join(Root(), "known_findings.json"))
	if err != nil {
		return
	}
	var f struct {
		Findings []knownFinding `json:"findings"`
	}
	if err := json.Unmarshal(b, &f); err != nil {
		fmt.Fprintf(os.Stderr, "known_findings.json unreadable: %v\n", err)
		os.Exit(2)
	}
	for _, k := range f.Findings {
		if k.Property == c.Prop && k.Status == "known" {
			c.known = append(c.known, k)
		}
	}
}

// Sample records an actual explored case for the evidence (bounded).
func (c *Ctx) Sample(s any) {
	c.mu.Lock()
	if len(c.samples) < 6 {
		c.samples = append(c.samples, s)
	}
	c.mu.Unlock()
}

// Violation records a failing case. order: position in the simplest-first enumeration (smallest kept per key).
func (c *Ctx) Violation(f *Fail, cas any, order int64) {
	c.mu.Lock()
	defer c.mu.Unlock()
	v, ok := c.viol[f.Key]
	if !ok {
		if len(c.viol) >= 200 {
			return
		}
		c.viol[f.Key] = &violation{Key: f.Key, What: f.What, Case: cas, Count: 1, Order: order}
		return
	}
	v.Count++
	if order < v.Order {
		v.alts = append(v.alts, altCase{v.Case, v.What})
		v.Order, v.Case, v.What = order, cas, f.What
	} else if len(v.alts) < 6 {
		v.alts = append(v.alts, altCase{cas, f.What})
	}
	if len(v.alts) > 6 {
		v.alts = v.alts[len(v.alts)-6:]
	}
}

func (c *Ctx) ViolationCount() int { c.mu.Lock(); defer c.mu.Unlock(); return len(c.viol) }

// Finish writes the evidence file, violation artefacts, prints KNOWN-FINDING / VIOLATION lines, returns exit code.
// recheck re-executes a case from its JSON artefact (nil Fail = no longer fails); it is called 5 times.
func (c *Ctx) Finish(recheck func(caseJSON []byte) *Fail) int {
	keys := make([]string, 0, len(c.viol))
	for k := range c.viol {
		keys = append(keys, k)
	}
	sort.Strings(keys)
	exit := 0
	unknown := 0
	knownHit := 0
	unreproduced := []any{}
	vdir := filepath.Join(Root(), "violations")
	for _, k := range keys {
		v := c.viol[k]
		// re-execute 5x; when the representative does not reproduce every time, try the other recorded cases of the class
		reexec := func(cas any) int {
			caseRaw, _ := json.Marshal(cas)
			fails := 0
			if recheck == nil {
				return 5
			}
			if strings.HasPrefix(v.Key, "hang") || strings.HasSuffix(v.Key, ":hang") {
				// a hang costs its full time-out (and an in-process hang leaks a spinning goroutine): re-executed once,
				// and that one re-execution decides - a time-out caused by a loaded machine does not come back
				done := make(chan *Fail, 1)
				go func() { done <- recheck(caseRaw) }()
				select {
				case f := <-done:
					if f != nil {
						return 5
					}
					return 0
				case <-time.After(c.CaseTimeout + 60*time.Second):
					return 5
				}
			}
			for i := 0; i < 5; i++ {
				if f := recheck(caseRaw); f != nil {
					fails++
				}
			}
			return fails
		}
		fails := reexec(v.Case)
		for _, a := range v.alts {
			if fails == 5 {
				break
			}
			if n := reexec(a.Case); n > fails {
				fails, v.Case, v.What = n, a.Case, a.What
			}
		}
		raw, _ := json.MarshalIndent(map[string]any{"property": c.Prop, "key": v.Key, "what": v.What, "case": v.Case}, "", " ")
		if fails == 0 {
			unreproduced = append(unreproduced, map[string]any{"key": v.Key, "what": v.What, "case": v.Case})
			fmt.Printf("UNREPRODUCED property=%s key=%s (0/5 on re-execution; recorded in evidence, not a verdict)\n", c.Prop, v.Key)
			continue
		}
		if kf := c.matchKnown(v.Key); kf != nil {
			knownHit++
			fmt.Printf("KNOWN-FINDING: property=%s %s [key=%s, %d failing cases this run]\n", c.Prop, kf.What, v.Key, v.Count)
			continue
		}
		unknown++
		os.MkdirAll(vdir, 0o755)
		h := sha1.Sum([]byte(v.Key))
		p := filepath.Join(vdir, fmt.Sprintf("%s-%s.json", c.Prop, hex.EncodeToString(h[:5])))
		os.WriteFile(p, raw, 0o644)
		rate := ""
		if fails < 5 {
			rate = fmt.Sprintf(" schedule-dependent(%d/5)", fails)
		}
		fmt.Printf("VIOLATION property=%s replay=%s\n", c.Prop, p)
		fmt.Printf("  key=%s%s cases=%d\n  %s\n", v.Key, rate, v.Count, v.What)
		exit = 1
	}
	cov := c.Cov
	if _, ok := cov["samples"]; !ok {
		if len(c.samples) == 0 {
			c.samples = append(c.samples, "none recorded")
		}
		cov["samples"] = c.samples
	}
	if c.capped {
		cov["exhaustive"] = false
		cov["capped_by_internal_deadline"] = true
	}
	if len(unreproduced) > 0 {
		cov["unreproduced"] = unreproduced
	}
	cov["known_findings_hit"] = knownHit
	if gp := os.Getenv("VERIF_GOROUTINE_PROFILE"); gp != "" {
		if f, err := os.Create(gp); err == nil {
			pprof.Lookup("goroutine").WriteTo(f, 1)
			f.Close()
		}
	}
	var ms runtime.MemStats
	runtime.ReadMemStats(&ms)
	cov["process_at_end"] = map[string]any{"goroutines": runtime.NumGoroutine(), "heap_in_use_mb": ms.HeapInuse >> 20, "sys_mb": ms.Sys >> 20, "gc_cycles": ms.NumGC}
	ev := map[string]any{
		"property_id": c.Prop,
		"tier":        c.Tier,
		"seed":        c.Seed,
		"level":       c.Level,
		"coverage":    cov,
		"assumptions": c.Assume,
		"wall_s":      time.Since(c.start).Seconds(),
		"violations":  unknown,
	}
	if c.Assume == nil {
		ev["assumptions"] = []string{}
	}
	if c.Replay == "" {
		b, _ := json.MarshalIndent(ev, "", " ")
		os.MkdirAll(filepath.Join(Root(), "evidence"), 0o755)
		if err := os.WriteFile(filepath.Join(Root(), "evidence", c.Prop+".json"), append(b, '\n'), 0o644); err != nil {
			fmt.Fprintf(os.Stderr, "cannot write evidence: %v\n", err)
			return 2
		}
	}
	fmt.Printf("%s tier=%s %s wall=%.1fs violations=%d known=%d\n", c.Prop, c.Tier, summarize(cov), time.Since(c.start).Seconds(), unknown, knownHit)
	return exit
}

func summarize(cov map[string]any) string {
	var parts []string
	for _, k := range []string{"evaluations", "distinct_nontrivial", "states", "transitions", "exhaustive"} {
		if v, ok := cov[k]; ok {
			parts = append(parts, fmt.Sprintf("%s=%v", k, v))
		}
	}
	return strings.Join(parts, " ")
}

func (c *Ctx) matchKnown(key string) *knownFinding {
	for i := range c.known {
		k := &c.known[i]
		if k.Key == key {
			return k
		}
		if strings.HasSuffix(k.Key, "*") && strings.HasPrefix(key, strings.TrimSuffix(k.Key, "*")) {
			return k
		}
	}
	return nil
}

// ReplayCase loads the "case" member of a violation artefact.
func (c *Ctx) ReplayCase() []byte {
	b, err := os.ReadFile(c.Replay)
	if err != nil {
		fmt.Fprintf(os.Stderr, "replay: %v\n", err)
		os.Exit(2)
	}
	var w struct {
		Case json.RawMessage `json:"case"`
	}
	if err := json.Unmarshal(b, &w); err != nil || len(w.Case) == 0 {
		return b
	}
	return w.Case
}

// Safe runs f, turning a panic into a Fail with the given key prefix.
func Safe(keyPrefix string, f func() *Fail) (res *Fail) {
	defer func() {
		if r := recover(); r != nil {
			st := string(debug.Stack())
			res = &Fail{Key: keyPrefix + ":panic:" + panicSite(st), What: fmt.Sprintf("panic: %v\n%s", r, trimStack(st))}
		}
	}()
	return f()
}

// panicSite extracts the first substreams frame (function name) below the panic for use in a key.
func panicSite(st string) string {
	lines := strings.Split(st, "\n")
	seenPanic := false
	for _, l := range lines {
		if strings.HasPrefix(l, "panic(") {
			seenPanic = true
			continue
		}
		if seenPanic && strings.Contains(l, "streamingfast/substreams") && !strings.HasPrefix(l, "\t") {
			if i := strings.LastIndex(l, "("); i > 0 {
				l = l[:i]
			}
			if i := strings.LastIndex(l, "/"); i >= 0 {
				l = l[i+1:]
			}
			return l
		}
	}
	return "unknown"
}
func trimStack(st string) string {
	lines := strings.Split(st, "\n")
	if len(lines) > 30 {
		lines = lines[:30]
	}
	return strings.Join(lines, "\n")
}

// ParallelEnum: engine E1. gen pushes cases (simplest first) through emit; eval runs on Workers goroutines.
// Returns evaluations and the count of non-trivial cases (eval's second result).
type Stats struct {
	Evaluations int64
	NonTrivial  int64
}

func ParallelEnum[C any](c *Ctx, gen func(emit func(C) bool), eval func(C) (fail *Fail, nontrivial bool)) Stats {
	workers := runtime.NumCPU()
	if c.Parallel > 0 {
		workers = c.Parallel
	}
	type item struct {
		ord int64
		cs  []C
	}
	ch := make(chan item, workers*4)
	var wg sync.WaitGroup
	var st Stats
	var stMu sync.Mutex
	type slot struct {
		mu    sync.Mutex
		start time.Time
		cs    *C
		ord   int64
	}
	slots := make([]*slot, workers)
	hung := make(chan struct{})
	var hungOnce sync.Once
	for w := 0; w < workers; w++ {
		wg.Add(1)
		sl := &slot{}
		slots[w] = sl
		go func() {
			defer wg.Done()
			var ev, nt int64
			defer func() {
				stMu.Lock()
				st.Evaluations += ev
				st.NonTrivial += nt
				stMu.Unlock()
			}()
			for it := range ch {
				for i, cs := range it.cs {
					cs := cs
					if c.CaseTimeout > 0 {
						sl.mu.Lock()
						sl.start, sl.cs, sl.ord = time.Now(), &cs, it.ord+int64(i)
						sl.mu.Unlock()
					}
					var nontriv bool
					f := Safe(c.Prop, func() *Fail {
						f, n := eval(cs)
						nontriv = n
						return f
					})
					ev++
					if nontriv {
						nt++
					}
					if f != nil {
						c.Violation(f, cs, it.ord+int64(i))
					}
					if c.CaseTimeout > 0 {
						sl.mu.Lock()
						sl.cs = nil
						sl.mu.Unlock()
					}
				}
			}
		}()
	}
	stopMon := make(chan struct{})
	if c.CaseTimeout > 0 {
		go func() {
			t := time.NewTicker(500 * time.Millisecond)
			defer t.Stop()
			for {
				select {
				case <-stopMon:
					return
				case <-t.C:
					for _, sl := range slots {
						sl.mu.Lock()
						if sl.cs != nil && time.Since(sl.start) > c.CaseTimeout {
							c.Violation(&Fail{Key: c.Prop + ":hang", What: fmt.Sprintf("case still running after %s (does not terminate)", c.CaseTimeout)}, *sl.cs, sl.ord)
							sl.mu.Unlock()
							hungOnce.Do(func() { close(hung) })
							return
						}
						sl.mu.Unlock()
					}
				}
			}
		}()
	}
	batch := 256
	if c.Parallel > 0 {
		batch = 1
	}
	var cur []C
	var ord int64
	n := 0
	isHung := func() bool {
		select {
		case <-hung:
			return true
		default:
			return false
		}
	}
	gen(func(cs C) bool {
		cur = append(cur, cs)
		if len(cur) == batch {
			select {
			case ch <- item{ord, cur}:
			case <-hung:
				return false
			}
			ord += int64(len(cur))
			cur = nil
			n++
			if n%64 == 0 && c.Expired() {
				return false
			}
		}
		return true
	})
	if len(cur) > 0 && !isHung() {
		select {
		case ch <- item{ord, cur}:
		case <-hung:
		}
	}
	close(ch)
	allDone := make(chan struct{})
	go func() { wg.Wait(); close(allDone) }()
	select {
	case <-allDone:
	case <-hung:
		// a worker is stuck inside the code under test and cannot be stopped: report what we have
		c.SetCapped()
		time.Sleep(200 * time.Millisecond)
	}
	close(stopMon)
	stMu.Lock()
	defer stMu.Unlock()
	return st
}

// JSONRecheck builds a recheck function for Finish from a typed eval.
func JSONRecheck[C any](prop string, eval func(C) (*Fail, bool)) func([]byte) *Fail {
	return func(raw []byte) *Fail {
		var cs C
		if err := json.Unmarshal(raw, &cs); err != nil {
			return &Fail{Key: "harness:bad-artefact", What: err.Error()}
		}
		return Safe(prop, func() *Fail { f, _ := eval(cs); return f })
	}
}

// RunReplay: common --replay handling; returns exit code.
func RunReplay[C any](c *Ctx, eval func(C) (*Fail, bool)) int {
	raw := c.ReplayCase()
	f := JSONRecheck(c.Prop, eval)(raw)
	if f == nil {
		fmt.Printf("replay: case does not violate %s on this tree\n", c.Prop)
		return 0
	}
	if kf := c.matchKnown(f.Key); kf != nil {
		fmt.Printf("KNOWN-FINDING: property=%s %s [key=%s]\n", c.Prop, kf.What, f.Key)
		return 0
	}
	fmt.Printf("VIOLATION property=%s replay=%s\n  key=%s\n  %s\n", c.Prop, c.Replay, f.Key, f.What)
	return 1
}
