// Package histx: engine E4 — explicit-state breadth-first search over the histories of one real store.
// State = a real FullKV + the stack of reversible blocks (their recorded deltas). Events: apply one of the menu's
// blocks (through the host interface), undo the top block (ApplyDeltasReverse with the recorded deltas, what
// ForkHandler.handleUndo does), merge one of the menu's partial stores, save+load. Live Go objects cannot be cloned:
// a successor is produced by replaying the event path on a fresh store.
package histx

import (
	"fmt"
	"sort"
	"strings"

	"go.uber.org/zap"

	pbsubstreams "github.com/streamingfast/substreams/pb/sf/substreams/v1"
	"github.com/streamingfast/substreams/storage/store"

	"verifharness/core"
	"verifharness/refmodel"
	"verifharness/storedrv"
)

type Event struct {
	K string `json:"k"` // apply | undo | merge | saveload
	I int    `json:"i,omitempty"`
}

func (e Event) String() string {
	switch e.K {
	case "apply", "merge":
		return fmt.Sprintf("%s(%d)", e.K, e.I)
	}
	return e.K
}

type Menu struct {
	Blocks   [][]refmodel.Op
	Partials [][]refmodel.Op
}

func DefaultMenu(c refmodel.Combo) Menu {
	v := refmodel.Values(c)
	w := func(k, val string, o uint64) refmodel.Op { return refmodel.Op{T: "w", K: k, V: val, O: o} }
	d := func(p string, o uint64) refmodel.Op { return refmodel.Op{T: "d", K: p, O: o} }
	return Menu{
		Blocks: [][]refmodel.Op{
			{w("a", v[0], 0), w("ab", v[1], 0)},             // creates
			{w("a", v[1], 0)},                               // update with a size change (or create)
			{d("a", 0), w("b", v[0], 1)},                    // delete by prefix, then create
			{w("ab", v[0], 0), d("ab", 1), w("a", v[2], 2)}, // create/update then delete inside one block, then update
		},
		Partials: [][]refmodel.Op{
			{w("a", v[1], 0)},
			{d("a", 0), w("ab", v[0], 1)},
			{w("b", v[2], 0), w("a", v[0], 0)},
		},
	}
}

type Case struct {
	Combo refmodel.Combo `json:"combo"`
	Hist  []Event        `json:"history"`
}

type State struct {
	Full  *store.FullKV
	Stack [][]*pbsubstreams.StoreDelta
	Snaps []string // raw content before each reversible block
}

func Raw(st store.Iterable) (string, uint64) {
	var kvs []string
	var total uint64
	st.Iter(func(k string, v []byte) error {
		kvs = append(kvs, fmt.Sprintf("%q=%q", k, v))
		total += uint64(len(k) + len(v))
		return nil
	})
	sort.Strings(kvs)
	return strings.Join(kvs, " "), total
}

// Oracle selects what is judged: "size" (C11) or "undo" (C03 store-level half).
type Explorer struct {
	Env    *storedrv.Env
	Cfg    *store.Config
	C      refmodel.Combo
	Menu   Menu
	Oracle string
}

func (x *Explorer) desc(h []Event) string {
	var s []string
	for _, e := range h {
		s = append(s, e.String())
	}
	return fmt.Sprintf("%s history %s (menu blocks: %s; partials: %s)", x.C, strings.Join(s, ","), fmtBlocks(x.Menu.Blocks), fmtBlocks(x.Menu.Partials))
}

func fmtBlocks(bs [][]refmodel.Op) string {
	var s []string
	for i, b := range bs {
		s = append(s, fmt.Sprintf("%d=%s", i, storedrv.FmtOps(b)))
	}
	return strings.Join(s, " ")
}

func cloneDeltas(in []*pbsubstreams.StoreDelta) []*pbsubstreams.StoreDelta {
	out := make([]*pbsubstreams.StoreDelta, len(in))
	copy(out, in)
	return out
}

// Build replays a history on a fresh store, judging the oracle after every event.
func (x *Explorer) Build(h []Event) (*State, *core.Fail) {
	st := &State{Full: x.Cfg.NewFullKV(zap.NewNop())}
	pol := x.C.Policy
	for i, ev := range h {
		switch ev.K {
		case "apply":
			snap, _ := Raw(st.Full)
			if err := x.Env.ApplyBlock(st.Full, x.C, x.Menu.Blocks[ev.I]); err != nil {
				return nil, core.Failf(pol+":apply-error", "%s event %d: %v", x.desc(h), i, err)
			}
			st.Stack = append(st.Stack, cloneDeltas(st.Full.GetDeltas()))
			st.Snaps = append(st.Snaps, snap)
		case "undo":
			n := len(st.Stack) - 1
			st.Full.ApplyDeltasReverse(st.Stack[n])
			want := st.Snaps[n]
			st.Stack, st.Snaps = st.Stack[:n], st.Snaps[:n]
			if x.Oracle == "undo" {
				if got, _ := Raw(st.Full); got != want {
					return nil, core.Failf("undo-does-not-restore-content", "%s: after event %d (undo) content is {%s}, before the undone block it was {%s}", x.desc(h), i, got, want)
				}
			}
		case "merge":
			p := x.Cfg.NewPartialKV(100, zap.NewNop())
			if err := x.Env.ApplyBlock(p, x.C, x.Menu.Partials[ev.I]); err != nil {
				return nil, core.Failf(pol+":partial-error", "%s event %d: %v", x.desc(h), i, err)
			}
			if err := st.Full.Merge(p); err != nil {
				return nil, core.Failf(pol+":merge-error", "%s event %d: %v", x.desc(h), i, err)
			}
			st.Stack, st.Snaps = nil, nil
		case "saveload":
			_, w, err := st.Full.Save(200)
			if err == nil {
				err = w.Write(x.Env.Ctx)
			}
			if err != nil {
				return nil, core.Failf(pol+":save-error", "%s event %d: %v", x.desc(h), i, err)
			}
			nf := x.Cfg.NewFullKV(zap.NewNop())
			if err := nf.Load(x.Env.Ctx, store.NewCompleteFileInfo("st", x.Cfg.ModuleInitialBlock(), 200)); err != nil {
				return nil, core.Failf(pol+":load-error", "%s event %d: %v", x.desc(h), i, err)
			}
			before, _ := Raw(st.Full)
			after, _ := Raw(nf)
			if before != after {
				return nil, core.Failf(pol+":saveload-content", "%s event %d: {%s} became {%s}", x.desc(h), i, before, after)
			}
			st.Full = nf
			st.Stack, st.Snaps = nil, nil
		}
		if x.Oracle == "size" {
			content, real := Raw(st.Full)
			if st.Full.SizeBytes() != real {
				return nil, core.Failf(sizeKey(pol, x.C, ev), "%s: after event %d (%s) SizeBytes()=%d but keys+values total %d, content {%s}", x.desc(h), i, ev, st.Full.SizeBytes(), real, content)
			}
		}
	}
	return st, nil
}

func sizeKey(pol string, c refmodel.Combo, ev Event) string {
	if ev.K == "merge" {
		return "size-drift:merge:" + pol + ":" + c.VT
	}
	return "size-drift:" + ev.K
}

func (x *Explorer) Key(st *State) string {
	content, _ := Raw(st.Full)
	var sb strings.Builder
	sb.WriteString(content)
	fmt.Fprintf(&sb, "|%d|", st.Full.SizeBytes())
	for _, ds := range st.Stack {
		for _, d := range ds {
			fmt.Fprintf(&sb, "%d%q%q%q,", d.Operation, d.Key, d.OldValue, d.NewValue)
		}
		sb.WriteString(";")
	}
	return sb.String()
}

func (x *Explorer) Enabled(st *State) []Event {
	var evs []Event
	for i := range x.Menu.Blocks {
		evs = append(evs, Event{"apply", i})
	}
	if len(st.Stack) > 0 {
		evs = append(evs, Event{K: "undo"})
	}
	for i := range x.Menu.Partials {
		evs = append(evs, Event{"merge", i})
	}
	evs = append(evs, Event{K: "saveload"})
	return evs
}

type Result struct {
	States      int
	Transitions int
	MaxDepth    int
	Undos       int // transitions that are undo events
	Merges      int
	Fail        *core.Fail
	FailHist    []Event
	Sample      []Event
}

// BFS to the given depth; stops at the first failure (shortest history first).
func (x *Explorer) BFS(depth int) Result {
	var res Result
	init, _ := x.Build(nil)
	seen := map[string]bool{x.Key(init): true}
	frontier := [][]Event{nil}
	res.States = 1
	for d := 0; d < depth && len(frontier) > 0; d++ {
		var next [][]Event
		for _, h := range frontier {
			st, f := x.Build(h)
			if f != nil {
				res.Fail, res.FailHist = &core.Fail{Key: "harness:nondeterministic-replay", What: "a history that built before no longer builds: " + f.What}, h
				return res
			}
			for _, ev := range x.Enabled(st) {
				nh := append(append([]Event{}, h...), ev)
				ns, f := x.Build(nh)
				res.Transitions++
				if ev.K == "undo" {
					res.Undos++
				}
				if ev.K == "merge" {
					res.Merges++
				}
				if f != nil {
					res.Fail, res.FailHist = f, nh
					return res
				}
				k := x.Key(ns)
				if !seen[k] {
					seen[k] = true
					res.States++
					next = append(next, nh)
					if len(nh) > res.MaxDepth {
						res.MaxDepth = len(nh)
						res.Sample = nh
					}
				}
			}
		}
		frontier = next
	}
	return res
}
