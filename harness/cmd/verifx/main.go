package main

import (
	"fmt"
	"os"
	"runtime/debug"
	"runtime/pprof"
	"syscall"

	"verifharness/core"
	"verifharness/props/c01"
	"verifharness/props/c02"
	"verifharness/props/c03"
	"verifharness/props/c04"
	"verifharness/props/c05"
	"verifharness/props/c06"
	"verifharness/props/c07"
	"verifharness/props/c08"
	"verifharness/props/c09"
	"verifharness/props/c10"
	"verifharness/props/c11"
	"verifharness/props/c12"
	"verifharness/props/c13"
	"verifharness/props/c14"
	"verifharness/props/c15"
	"verifharness/props/c16"
	"verifharness/props/c17"
	"verifharness/props/c18"
	"verifharness/props/smoke"
)

var checks = map[string]func(*core.Ctx) int{
	"C01":   c01.Run,
	"C02":   c02.Run,
	"C03":   c03.Run,
	"C04":   c04.Run,
	"C05":   c05.Run,
	"C06":   c06.Run,
	"C07":   c07.Run,
	"C08":   c08.Run,
	"C09":   c09.Run,
	"C10":   c10.Run,
	"C11":   c11.Run,
	"C12":   c12.Run,
	"C13":   c13.Run,
	"C14":   c14.Run,
	"C15":   c15.Run,
	"C16":   c16.Run,
	"C17":   c17.Run,
	"C18":   c18.Run,
	"smoke": smoke.Run,
}

func main() {
	if len(os.Args) < 2 {
		fmt.Fprintln(os.Stderr, "usage: verifx <property id> [--tier quick|thorough] [--replay path]")
		os.Exit(2)
	}
	id := os.Args[1]
	run, ok := checks[id]
	if !ok {
		fmt.Fprintf(os.Stderr, "unknown check %q\n", id)
		os.Exit(2)
	}
	raiseFileLimit()
	debug.SetGCPercent(800) // allocation-heavy sweeps; memory is plentiful
	// ... up to a point: a soft limit makes the collector work harder instead of letting a long thorough run grow to
	// nine times its live heap (a quarter of the machine's memory, at least 4 GiB, at most 16 GiB)
	limit := int64(16 << 30)
	if b, err := os.ReadFile("/proc/meminfo"); err == nil {
		var kb int64
		if _, err := fmt.Sscanf(string(b), "MemTotal: %d kB", &kb); err == nil && kb > 0 {
			if q := kb * 1024 / 4; q < limit {
				limit = q
			}
		}
	}
	if limit < 4<<30 {
		limit = 4 << 30
	}
	debug.SetMemoryLimit(limit)
	ctx := core.NewCtx(id, os.Args[2:])
	if p := ctx.Args["cpuprofile"]; p != "" {
		f, _ := os.Create(p)
		pprof.StartCPUProfile(f)
		rc := run(ctx)
		pprof.StopCPUProfile()
		f.Close()
		os.Exit(rc)
	}
	os.Exit(run(ctx))
}

// raiseFileLimit: dstore's zstd read path leaves closing the underlying *os.File to the finalizer; an exploration
// opens files faster than the collector runs.
func raiseFileLimit() {
	var l syscall.Rlimit
	if err := syscall.Getrlimit(syscall.RLIMIT_NOFILE, &l); err == nil {
		l.Cur = l.Max
		syscall.Setrlimit(syscall.RLIMIT_NOFILE, &l)
	}
}
