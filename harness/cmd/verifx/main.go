package main

import (
	"fmt"
	"os"

	"verifharness/core"
	"verifharness/props/c08"
	"verifharness/props/c13"
)

var checks = map[string]func(*core.Ctx) int{
	"C08": c08.Run,
	"C13": c13.Run,
}

func main() {
	if len(os.Args) < 2 {
		fmt.Fprintln(os.Stderr, "usage: verifx <property id> [--tier quick|thorough] [--replay path]")
		os.Exit(2)
	}
	id := os.Args[1]
	run, ok := checks[id]
	if !ok {
		fmt.Fprintf(os.Stderr, "unknown check %q\n", id)
		os.Exit(2)
	}
	ctx := core.NewCtx(id, os.Args[2:])
	os.Exit(run(ctx))
}
