package storedrv

import (
	"fmt"

	"github.com/streamingfast/substreams/storage/store"
	"go.uber.org/zap"

	"verifharness/refmodel"
)

// Segments cuts blocks [0,n) into consecutive segments: bit i of cut set = boundary after block i (i in 0..n-2).
func Segments(n int, cut uint) [][2]int {
	var out [][2]int
	start := 0
	for i := 0; i < n; i++ {
		if i == n-1 || cut&(1<<uint(i)) != 0 {
			out = append(out, [2]int{start, i + 1})
			start = i + 1
		}
	}
	return out
}

// Sequential: one real FullKV, every block through the host interface.
func (e *Env) Sequential(cfg *store.Config, c refmodel.Combo, blocks [][]refmodel.Op) (*store.FullKV, error) {
	full := cfg.NewFullKV(zap.NewNop())
	for i, b := range blocks {
		if err := e.ApplyBlock(full, c, b); err != nil {
			return nil, fmt.Errorf("sequential block %d: %w", i, err)
		}
	}
	return full, nil
}

// SquashChain builds one PartialKV per segment through the host interface (block numbers base+i), saves it to its
// snapshot file, reloads it into a fresh object and merges it into the running FullKV in block order — what
// tier2 (pipeline.setupSubrequestStores + saveStoreSnapshot) and the squasher (stage.singleSquash) do.
// reloadFull: after every merge the FullKV is itself saved and reloaded (squasher picking the store up from storage).
func (e *Env) SquashChain(cfg *store.Config, c refmodel.Combo, blocks [][]refmodel.Op, cut uint, reloadFull bool, base uint64) (*store.FullKV, error) {
	full := cfg.NewFullKV(zap.NewNop())
	for _, seg := range Segments(len(blocks), cut) {
		start, end := base+uint64(seg[0]), base+uint64(seg[1])
		part := cfg.NewPartialKV(start, zap.NewNop())
		for i := seg[0]; i < seg[1]; i++ {
			if err := e.ApplyBlock(part, c, blocks[i]); err != nil {
				return nil, fmt.Errorf("partial block %d: %w", i, err)
			}
		}
		file, w, err := part.Save(end)
		if err != nil {
			return nil, fmt.Errorf("save partial: %w", err)
		}
		if err := w.Write(e.Ctx); err != nil {
			return nil, fmt.Errorf("write partial: %w", err)
		}
		loaded := cfg.NewPartialKV(start, zap.NewNop())
		if err := loaded.Load(e.Ctx, store.NewPartialFileInfo("st", start, end)); err != nil {
			return nil, fmt.Errorf("load partial %s: %w", file.Filename, err)
		}
		if err := full.Merge(loaded); err != nil {
			return nil, fmt.Errorf("merge segment [%d,%d): %w", start, end, err)
		}
		if reloadFull {
			_, fw, err := full.Save(end)
			if err != nil {
				return nil, fmt.Errorf("save full: %w", err)
			}
			if err := fw.Write(e.Ctx); err != nil {
				return nil, fmt.Errorf("write full: %w", err)
			}
			nf := cfg.NewFullKV(zap.NewNop())
			if err := nf.Load(e.Ctx, store.NewCompleteFileInfo("st", cfg.ModuleInitialBlock(), end)); err != nil {
				return nil, fmt.Errorf("load full: %w", err)
			}
			full = nf
		}
	}
	return full, nil
}
