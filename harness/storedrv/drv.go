// Package storedrv drives the real substreams stores through the real WASM host interface (wasm.Call.Do*),
// and compares them with refmodel.
package storedrv

import (
	"context"
	"fmt"
	"net/url"
	"sort"
	"strconv"
	"strings"

	"github.com/streamingfast/dstore"
	"go.uber.org/zap"

	"github.com/streamingfast/substreams/metrics"
	pbsubstreams "github.com/streamingfast/substreams/pb/sf/substreams/v1"
	"github.com/streamingfast/substreams/storage/store"
	"github.com/streamingfast/substreams/wasm"

	"verifharness/refmodel"
)

var policies = map[string]pbsubstreams.Module_KindStore_UpdatePolicy{
	"set":               pbsubstreams.Module_KindStore_UPDATE_POLICY_SET,
	"set_if_not_exists": pbsubstreams.Module_KindStore_UPDATE_POLICY_SET_IF_NOT_EXISTS,
	"append":            pbsubstreams.Module_KindStore_UPDATE_POLICY_APPEND,
	"add":               pbsubstreams.Module_KindStore_UPDATE_POLICY_ADD,
	"min":               pbsubstreams.Module_KindStore_UPDATE_POLICY_MIN,
	"max":               pbsubstreams.Module_KindStore_UPDATE_POLICY_MAX,
	"set_sum":           pbsubstreams.Module_KindStore_UPDATE_POLICY_SET_SUM,
}

func Policy(c refmodel.Combo) pbsubstreams.Module_KindStore_UpdatePolicy { return policies[c.Policy] }

// MemStore: in-memory dstore, no compression (a zstd encoder per write costs ~1 ms; compression is dstore's concern and is exercised by C10 and the whole-system checks).
func MemStore() dstore.Store {
	u, _ := url.Parse("memory://verif")
	s, err := dstore.NewMemoryStore(u, "", "", true)
	if err != nil {
		panic(err)
	}
	return s
}

// Env holds per-worker objects (stats has a mutex; one per goroutine avoids contention).
type Env struct {
	Stats *metrics.Stats
	Ctx   context.Context
}

func NewEnv() *Env {
	return &Env{Stats: metrics.NewReqStats(&metrics.Config{}, zap.NewNop()), Ctx: context.Background()}
}

func NewConfig(c refmodel.Combo, initialBlock uint64, ds dstore.Store) *store.Config {
	cfg, err := store.NewConfig("st", initialBlock, "hash", Policy(c), c.VT, ds)
	if err != nil {
		panic(err)
	}
	return cfg
}

// HostWrite performs one operation through the host interface, exactly as a WASM module would.
func HostWrite(call *wasm.Call, c refmodel.Combo, op refmodel.Op) {
	if op.T == "d" {
		call.DoDeletePrefix(op.O, op.K)
		return
	}
	switch c.Policy {
	case "set":
		call.DoSet(op.O, op.K, []byte(op.V))
	case "set_if_not_exists":
		call.DoSetIfNotExists(op.O, op.K, []byte(op.V))
	case "append":
		call.DoAppend(op.O, op.K, []byte(op.V))
	case "add":
		switch c.VT {
		case "int64":
			call.DoAddInt64(op.O, op.K, mustInt(op.V))
		case "float64":
			call.DoAddFloat64(op.O, op.K, mustFloat(op.V))
		case "bigint":
			call.DoAddBigInt(op.O, op.K, op.V)
		default:
			call.DoAddBigDecimal(op.O, op.K, op.V)
		}
	case "min":
		switch c.VT {
		case "int64":
			call.DoSetMinInt64(op.O, op.K, mustInt(op.V))
		case "float64":
			call.DoSetMinFloat64(op.O, op.K, mustFloat(op.V))
		case "bigint":
			call.DoSetMinBigInt(op.O, op.K, op.V)
		default:
			call.DoSetMinBigDecimal(op.O, op.K, op.V)
		}
	case "max":
		switch c.VT {
		case "int64":
			call.DoSetMaxInt64(op.O, op.K, mustInt(op.V))
		case "float64":
			call.DoSetMaxFloat64(op.O, op.K, mustFloat(op.V))
		case "bigint":
			call.DoSetMaxBigInt(op.O, op.K, op.V)
		default:
			call.DoSetMaxBigDecimal(op.O, op.K, op.V)
		}
	case "set_sum":
		switch c.VT {
		case "int64":
			call.DoSetSumInt64(op.O, op.K, op.V)
		case "float64":
			call.DoSetSumFloat64(op.O, op.K, op.V)
		case "bigint":
			call.DoSetSumBigInt(op.O, op.K, op.V)
		default:
			call.DoSetSumBigDecimal(op.O, op.K, op.V)
		}
	default:
		panic("storedrv: unknown policy " + c.Policy)
	}
}

func mustInt(s string) int64 {
	n, err := strconv.ParseInt(s, 10, 64)
	if err != nil {
		panic("storedrv: alphabet value is not an int64: " + s)
	}
	return n
}
func mustFloat(s string) float64 {
	f, err := strconv.ParseFloat(s, 64)
	if err != nil {
		panic("storedrv: alphabet value is not a float: " + s)
	}
	return f
}

var clock = &pbsubstreams.Clock{Id: "blk", Number: 1}

// ApplyBlock runs one block of operations on a real store through wasm.NewCall (which resets the store's
// per-block state, as production does) + Do* + Flush.
func (e *Env) ApplyBlock(st store.Store, c refmodel.Combo, ops []refmodel.Op) error {
	call := wasm.NewCall(clock, "st", "ep", e.Stats, []wasm.Argument{wasm.NewStoreWriterOutput("st", st, Policy(c), c.VT)})
	for _, op := range ops {
		HostWrite(call, c, op)
	}
	return st.Flush()
}

// ReaderCall: a Call of a module reading st as its store input 0.
func (e *Env) ReaderCall(st store.Store) *wasm.Call {
	return wasm.NewCall(clock, "reader", "ep", e.Stats, []wasm.Argument{wasm.NewStoreReaderInput("st", st, 0)})
}

// Content: sorted typed content of a real store + the real total of key+value lengths.
func Content(st store.Iterable, c refmodel.Combo) (map[string]*refmodel.Val, uint64, error) {
	out := map[string]*refmodel.Val{}
	var total uint64
	var perr error
	st.Iter(func(k string, v []byte) error {
		total += uint64(len(k) + len(v))
		pv, err := refmodel.ParseImpl(c, v)
		if err != nil {
			perr = fmt.Errorf("key %q: %w", k, err)
		}
		out[k] = pv
		return nil
	})
	return out, total, perr
}

// DiffContent compares a real content with the reference; "" when equal.
func DiffContent(got map[string]*refmodel.Val, ref *refmodel.Store) string {
	var keys []string
	seen := map[string]bool{}
	for k := range got {
		keys = append(keys, k)
		seen[k] = true
	}
	for k := range ref.KV {
		if !seen[k] {
			keys = append(keys, k)
		}
	}
	sort.Strings(keys)
	var diffs []string
	for _, k := range keys {
		g, r := got[k], ref.KV[k]
		if !g.Equal(r) {
			diffs = append(diffs, fmt.Sprintf("%s: got %s want %s", k, g, r))
		}
	}
	return strings.Join(diffs, "; ")
}

func FmtOps(ops []refmodel.Op) string {
	var s []string
	for _, o := range ops {
		s = append(s, o.String())
	}
	return "[" + strings.Join(s, " ") + "]"
}
