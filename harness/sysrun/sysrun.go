// Package sysrun: engine E3 — the whole-system runner. One call = one tier1 request served by the real
// Tier1Service.blocks, with segment jobs executed by the real Tier2Service.processRange in-process, real module hashes,
// the scripted WASM runtime, a deterministic block source and a cache directory the driver prepares and inspects.
package sysrun

import (
	"context"
	"errors"
	"fmt"
	"io"
	"os"
	"path/filepath"
	"sort"
	"strconv"
	"strings"
	"sync"
	"sync/atomic"
	"time"

	"github.com/streamingfast/bstream"
	pbbstream "github.com/streamingfast/bstream/pb/sf/bstream/v1"
	"github.com/streamingfast/bstream/stream"
	"github.com/streamingfast/dmetering"
	"github.com/streamingfast/dstore"
	"github.com/streamingfast/shutter"
	"go.uber.org/zap"
	"google.golang.org/protobuf/types/known/anypb"
	"google.golang.org/protobuf/types/known/timestamppb"

	"github.com/streamingfast/substreams"
	"github.com/streamingfast/substreams/orchestrator/loop"
	"github.com/streamingfast/substreams/orchestrator/response"
	"github.com/streamingfast/substreams/orchestrator/stage"
	"github.com/streamingfast/substreams/orchestrator/work"
	pbssinternal "github.com/streamingfast/substreams/pb/sf/substreams/intern/v2"
	pbsubstreamsrpc "github.com/streamingfast/substreams/pb/sf/substreams/rpc/v2"
	pbsubstreams "github.com/streamingfast/substreams/pb/sf/substreams/v1"
	pbsubstreamstest "github.com/streamingfast/substreams/pb/sf/substreams/v1/test"
	"github.com/streamingfast/substreams/pipeline"
	"github.com/streamingfast/substreams/pipeline/exec"
	"github.com/streamingfast/substreams/reqctx"
	"github.com/streamingfast/substreams/service"
	"github.com/streamingfast/substreams/service/config"
	"github.com/streamingfast/substreams/storage/store"

	"verifharness/modgen"
	"verifharness/script"
)

func init() {
	script.Register()
	os.Setenv("SUBSTREAMS_WASM_RUNTIME", script.RuntimeName)
}

// BlockID: the canonical chain's block id for a height. Fork scenarios use their own ids.
func BlockID(n uint64) string { return "b" + strconv.FormatUint(n, 10) }

var epoch = time.Date(2020, 1, 1, 0, 0, 0, 0, time.UTC)

func BlockTime(n uint64) time.Time { return epoch.Add(time.Duration(n) * time.Second) }

// Step is one (block, step) pair handed to the pipeline by the block source.
type Step struct {
	Num      uint64
	ID       string
	ParentID string
	Step     bstream.StepType
	LIBNum   uint64
	LIBID    string
	HeadNum  uint64
	HeadID   string
	Junction bstream.BlockRef // for undo steps
	EndNil   bool             // the block source shuts down cleanly after this step (streamRunner returns nil)
}

type obj struct {
	cursor   *bstream.Cursor
	step     bstream.StepType
	junction bstream.BlockRef
}

func (o *obj) Cursor() *bstream.Cursor              { return o.cursor }
func (o *obj) Step() bstream.StepType               { return o.step }
func (o *obj) FinalBlockHeight() uint64             { return o.cursor.LIB.Num() }
func (o *obj) ReorgJunctionBlock() bstream.BlockRef { return o.junction }

func mkBlock(s Step) (*pbbstream.Block, *obj) {
	tb := &pbsubstreamstest.Block{Id: s.ID, Number: s.Num}
	anyBlock, err := anypb.New(tb)
	if err != nil {
		panic(err)
	}
	blk := &pbbstream.Block{Id: s.ID, Number: s.Num, ParentId: s.ParentID, Timestamp: timestamppb.New(BlockTime(s.Num)), LibNum: s.LIBNum, Payload: anyBlock}
	if s.Num > 0 {
		blk.ParentNum = s.Num - 1
	}
	o := &obj{
		cursor:   &bstream.Cursor{Step: s.Step, Block: bstream.NewBlockRef(s.ID, s.Num), LIB: bstream.NewBlockRef(s.LIBID, s.LIBNum), HeadBlock: bstream.NewBlockRef(s.HeadID, s.HeadNum)},
		step:     s.Step,
		junction: s.Junction,
	}
	return blk, o
}

// Source decides which steps the linear part of a request sees. start is the first block requested, stop the exclusive
// stop block (0 = none), cursor the resolved cursor.
type Source interface {
	Steps(start uint64, stop uint64, cursor string, tier2 bool) []Step
}

// LinearChain: a fork-free chain b0..bHead; blocks at or below Final arrive as new+irreversible (cursor LIB = block),
// the others as new with LIB = Final.
type LinearChain struct {
	Head  uint64
	Final uint64
	// CleanEndAt > 0: the block source shuts down cleanly (Run returns nil, not EOF) right after delivering block
	// CleanEndAt, in the tier1 stream (CleanEndTier2 false) or in the tier2 job whose segment holds it (true)
	CleanEndAt    uint64
	CleanEndTier2 bool
}

func (c LinearChain) Steps(start, stop uint64, cursor string, tier2 bool) []Step {
	var out []Step
	end := c.Head
	if stop != 0 && stop < end {
		end = stop // the block source delivers the stop block itself: the pipeline answers it with EOF
	}
	for n := start; n <= end; n++ {
		s := Step{Num: n, ID: BlockID(n), HeadNum: c.Head, HeadID: BlockID(c.Head)}
		if n > 0 {
			s.ParentID = BlockID(n - 1)
		}
		if n <= c.Final || tier2 {
			s.Step, s.LIBNum, s.LIBID = bstream.StepNewIrreversible, n, BlockID(n)
		} else {
			s.Step, s.LIBNum, s.LIBID = bstream.StepNew, c.Final, BlockID(c.Final)
		}
		out = append(out, s)
		if c.CleanEndAt != 0 && n == c.CleanEndAt && tier2 == c.CleanEndTier2 {
			out[len(out)-1].EndNil = true
			break
		}
	}
	return out
}

type streamRunner struct {
	*shutter.Shutter
	pipe  *pipeline.Pipeline
	steps []Step
	// StopAfter: deliver at most this many steps then return ctx-like error (0 = all)
	onBlock func(s Step)
	// a real block stream does not look at the request context between two blocks: with ignoreCtx the next block is handed
	// to the pipeline although the context was cancelled meanwhile (fault placement: the cancellation lands inside a block)
	ignoreCtx bool
}

func (r *streamRunner) Run(ctx context.Context) error {
	for _, s := range r.steps {
		if ctx.Err() != nil && !r.ignoreCtx {
			return ctx.Err()
		}
		blk, o := mkBlock(s)
		err := r.pipe.ProcessBlock(blk, o)
		if errors.Is(err, io.EOF) {
			return err
		}
		if err != nil {
			return fmt.Errorf("process block %d: %w", s.Num, err)
		}
		if r.onBlock != nil {
			r.onBlock(s)
		}
		if s.EndNil {
			return nil // a clean shutdown of the block source before the stop block
		}
	}
	return io.EOF
}

// Config of one request.
type Config struct {
	Modules *pbsubstreams.Modules
	Output  string
	Prod    bool
	Seg     uint64
	Start   int64
	Stop    uint64
	Cursor  string
	Final   uint64 // final block known to tier1 (0 = unknown)
	Dir     string // cache directory (the state store lives in Dir/test.store)
	Workers uint64
	Source  Source // block source of tier1's linear part and of the tier2 jobs
	Timeout time.Duration
	// WorkerFactory overrides the in-process tier2 worker (fault injection, remote worker over bufconn).
	WorkerFactory func(base work.WorkerFactory) work.WorkerFactory
	// OnJob is called when a tier2 job starts (unit) — observation only.
	OnJob func(u stage.Unit)
	// AfterLinearBlock is called after each block of the linear phase with the live store map (C03).
	AfterLinearBlock func(s Step, pipe *pipeline.Pipeline)
	ResolveCursor    pipeline.CursorResolver
	DebugSnapshotFor []string
	// PanicOnBlock > 0: the response sink panics (once) when the data message of that block is written.
	PanicOnBlock uint64
	// Tier2AfterBlock is called by an in-process tier2 job after each block it has processed (fault placement).
	Tier2AfterBlock func(req *pbssinternal.ProcessRangeRequest, s Step)
	// FailWrite > 0: the n-th object write below Dir (tier1 and its tier2 jobs together, in the order they happen) fails
	// once after consuming its body. Result.Writes counts the object writes below Dir either way.
	FailWrite int
}

// object-store write faults (dstore overlay hook), attributed to a run by its cache directory
type writePlan struct {
	dir    string
	n      int64 // writes seen
	failAt int64
	hit    int32
}

var writePlans sync.Map // dir -> *writePlan

func init() {
	dstore.VerifWriteFault = func(path string) bool {
		var plan *writePlan
		writePlans.Range(func(k, v any) bool {
			if strings.HasPrefix(path, k.(string)+string(filepath.Separator)) {
				plan = v.(*writePlan)
				return false
			}
			return true
		})
		if plan == nil {
			return false
		}
		n := atomic.AddInt64(&plan.n, 1)
		if plan.failAt > 0 && n == plan.failAt {
			atomic.StoreInt32(&plan.hit, 1)
			return true
		}
		return false
	}
}

type DataMsg struct {
	Num     uint64
	ID      string
	Payload string
	Cursor  string
	Final   uint64
	// debug outputs (development mode)
	DebugStores map[string]string
}

type SeqItem struct {
	Kind    string // data | undo
	Num     uint64
	ID      string
	Payload string
	Cursor  string
}

type Result struct {
	Seq        []SeqItem // data and undo messages in arrival order
	Err        error
	Session    *pbsubstreamsrpc.SessionInit
	Data       []DataMsg
	Events     []string // "data:<num>:<id>", "undo:<num>:<id>" in arrival order
	Undos      []*pbsubstreamsrpc.BlockUndoSignal
	AfterError int // data messages received after the request returned an error (must be 0)
	Jobs       []stage.Unit
	Wall       time.Duration
	// object writes below Dir during the run; whether the injected write failure (Config.FailWrite) was reached
	Writes        int
	WriteFaultHit bool
	SinkPanicked  bool // Config.PanicOnBlock was reached
}

type collector struct {
	mu       sync.Mutex
	res      *Result
	closed   bool
	panicAt  uint64
	panicked bool
}

func (c *collector) Collect(respAny substreams.ResponseFromAnyTier) error {
	resp, ok := respAny.(*pbsubstreamsrpc.Response)
	if !ok {
		return nil
	}
	c.mu.Lock()
	defer c.mu.Unlock()
	switch m := resp.Message.(type) {
	case *pbsubstreamsrpc.Response_Session:
		c.res.Session = m.Session
	case *pbsubstreamsrpc.Response_BlockScopedData:
		if c.closed {
			c.res.AfterError++
		}
		d := m.BlockScopedData
		if c.panicAt != 0 && d.Clock.Number == c.panicAt && !c.panicked {
			c.panicked = true
			c.res.SinkPanicked = true
			panic(fmt.Sprintf("response sink failed while writing block %d", d.Clock.Number))
		}
		dm := DataMsg{Num: d.Clock.Number, ID: d.Clock.Id, Cursor: d.Cursor, Final: d.FinalBlockHeight}
		if d.Output != nil && d.Output.MapOutput != nil {
			dm.Payload = string(d.Output.MapOutput.Value)
		}
		for _, so := range d.DebugStoreOutputs {
			if dm.DebugStores == nil {
				dm.DebugStores = map[string]string{}
			}
			dm.DebugStores[so.Name] = renderDebugDeltas(so.DebugStoreDeltas)
		}
		c.res.Data = append(c.res.Data, dm)
		c.res.Seq = append(c.res.Seq, SeqItem{Kind: "data", Num: dm.Num, ID: dm.ID, Payload: dm.Payload, Cursor: dm.Cursor})
		c.res.Events = append(c.res.Events, fmt.Sprintf("data:%d:%s", dm.Num, dm.ID))
	case *pbsubstreamsrpc.Response_BlockUndoSignal:
		c.res.Undos = append(c.res.Undos, m.BlockUndoSignal)
		c.res.Seq = append(c.res.Seq, SeqItem{Kind: "undo", Num: m.BlockUndoSignal.LastValidBlock.Number, ID: m.BlockUndoSignal.LastValidBlock.Id, Cursor: m.BlockUndoSignal.LastValidCursor})
		c.res.Events = append(c.res.Events, fmt.Sprintf("undo:%d:%s", m.BlockUndoSignal.LastValidBlock.Number, m.BlockUndoSignal.LastValidBlock.Id))
	}
	return nil
}

func renderDebugDeltas(ds []*pbsubstreamsrpc.StoreDelta) string {
	var parts []string
	for _, d := range ds {
		parts = append(parts, fmt.Sprintf("%s:%s:%s>%s", d.Operation, d.Key, d.OldValue, d.NewValue))
	}
	return strings.Join(parts, "|")
}

var workerSeq uint64

type inprocWorker struct {
	id  uint64
	cfg *Config
}

func (w *inprocWorker) ID() string { return fmt.Sprintf("w%d", w.id) }

func Tier2Params(cfg *Config) reqctx.Tier2RequestParameters {
	return reqctx.Tier2RequestParameters{
		BlockType:            modgen.BlockType,
		StateBundleSize:      cfg.Seg,
		StateStoreURL:        filepath.Join(cfg.Dir, "test.store"),
		StateStoreDefaultTag: "tag",
		MergedBlockStoreURL:  filepath.Join(cfg.Dir, "merged-blocks"),
		MeteringConfig:       "null://",
		FirstStreamableBlock: 0,
	}
}

// RunTier2 executes one ProcessRange request in-process with the real Tier2Service.
func RunTier2(ctx context.Context, cfg *Config, request *pbssinternal.ProcessRangeRequest, respFunc substreams.ResponseFunc) error {
	ctx = reqctx.WithTier2RequestParameters(ctx, Tier2Params(cfg))
	factory := func(ctx context.Context, h bstream.Handler, startBlockNum int64, stopBlockNum uint64, cursor string, _ bool, _ bool, _ *zap.Logger, _ ...stream.Option) (service.Streamable, error) {
		pipe, ok := h.(*pipeline.Pipeline)
		if !ok {
			return nil, fmt.Errorf("tier2 stream handler is %T", h)
		}
		r := &streamRunner{Shutter: shutter.New(), pipe: pipe, steps: cfg.Source.Steps(uint64(startBlockNum), stopBlockNum, cursor, true)}
		if cfg.Tier2AfterBlock != nil {
			r.onBlock = func(s Step) { cfg.Tier2AfterBlock(request, s) }
			r.ignoreCtx = true
		}
		return r, nil
	}
	svc := service.TestNewServiceTier2(false, factory)
	service.WithBlockExecutionTimeout(3 * time.Minute)(svc) // the test constructor leaves it at zero: every block's context would be born expired
	if respFunc == nil {
		respFunc = func(substreams.ResponseFromAnyTier) error { return nil }
	}
	return svc.TestProcessRange(ctx, request, respFunc)
}

func (w *inprocWorker) Work(ctx context.Context, unit stage.Unit, startBlock uint64, moduleNames []string, upstream *response.Stream) loop.Cmd {
	ctx = reqctx.WithTier2RequestParameters(ctx, Tier2Params(w.cfg))
	request := work.NewRequest(ctx, reqctx.Details(ctx), unit.Stage, startBlock)
	if w.cfg.OnJob != nil {
		w.cfg.OnJob(unit)
	}
	return func() loop.Msg {
		if err := RunTier2(ctx, w.cfg, request, nil); err != nil {
			return work.MsgJobFailed{Unit: unit, Error: fmt.Errorf("processing tier2 request: %w", err)}
		}
		return work.MsgJobSucceeded{Unit: unit, Worker: w}
	}
}

// BaseWorkerFactory: in-process tier2 jobs.
func BaseWorkerFactory(cfg *Config) work.WorkerFactory {
	return func(_ *zap.Logger) work.Worker {
		return &inprocWorker{id: atomic.AddUint64(&workerSeq, 1), cfg: cfg}
	}
}

// Run serves one tier1 request.
func Run(cfg Config) *Result {
	t0 := time.Now()
	res := &Result{}
	if cfg.Seg == 0 {
		cfg.Seg = 10
	}
	if cfg.Workers == 0 {
		cfg.Workers = 1
	}
	if cfg.Timeout == 0 {
		cfg.Timeout = 60 * time.Second
	}
	ctx, cancel := context.WithTimeout(context.Background(), cfg.Timeout)
	defer cancel()
	ctx = reqctx.WithLogger(ctx, zap.NewNop())
	ctx = dmetering.WithBytesMeter(ctx)
	ctx = reqctx.WithEmitter(ctx, nullEmitter{})

	base, err := dstore.NewStore(filepath.Join(cfg.Dir, "test.store"), "zst", "zstd", true)
	if err != nil {
		res.Err = err
		return res
	}
	wp := &writePlan{dir: cfg.Dir, failAt: int64(cfg.FailWrite)}
	writePlans.Store(cfg.Dir, wp)
	defer func() {
		writePlans.Delete(cfg.Dir)
		res.Writes = int(atomic.LoadInt64(&wp.n))
		res.WriteFaultHit = atomic.LoadInt32(&wp.hit) == 1
	}()
	var jobsMu sync.Mutex
	userOnJob := cfg.OnJob
	cfg.OnJob = func(u stage.Unit) {
		jobsMu.Lock()
		res.Jobs = append(res.Jobs, u)
		jobsMu.Unlock()
		if userOnJob != nil {
			userOnJob(u)
		}
	}
	wf := BaseWorkerFactory(&cfg)
	if cfg.WorkerFactory != nil {
		wf = cfg.WorkerFactory(wf)
	}
	rc := config.RuntimeConfig{
		SegmentSize:                cfg.Seg,
		DefaultParallelSubrequests: cfg.Workers,
		BaseObjectStore:            base,
		DefaultCacheTag:            "tag",
		WorkerFactory:              wf,
		MaxJobsAhead:               10,
	}
	col := &collector{res: res, panicAt: cfg.PanicOnBlock}
	factory := func(ctx context.Context, h bstream.Handler, startBlockNum int64, stopBlockNum uint64, cursor string, _ bool, _ bool, _ *zap.Logger, _ ...stream.Option) (service.Streamable, error) {
		var pipe *pipeline.Pipeline
		switch x := h.(type) {
		case *service.LiveBackFiller:
			pipe = x.NextHandler.(*pipeline.Pipeline)
		case *pipeline.Pipeline:
			pipe = x
		default:
			return nil, fmt.Errorf("tier1 stream handler is %T", h)
		}
		r := &streamRunner{Shutter: shutter.New(), pipe: pipe, steps: cfg.Source.Steps(uint64(startBlockNum), stopBlockNum, cursor, false)}
		if cfg.AfterLinearBlock != nil {
			r.onBlock = func(s Step) { cfg.AfterLinearBlock(s, pipe) }
		}
		return r, nil
	}
	svc := service.TestNewService(rc, cfg.Final, factory)
	service.WithBlockExecutionTimeout(3 * time.Minute)(svc)
	if cfg.ResolveCursor != nil {
		service.VerifSetCursorResolver(svc, cfg.ResolveCursor)
	}
	req := &pbsubstreamsrpc.Request{
		StartBlockNum:                       cfg.Start,
		StopBlockNum:                        cfg.Stop,
		StartCursor:                         cfg.Cursor,
		Modules:                             cfg.Modules,
		OutputModule:                        cfg.Output,
		ProductionMode:                      cfg.Prod,
		DebugInitialStoreSnapshotForModules: cfg.DebugSnapshotFor,
	}
	done := make(chan error, 1)
	go func() {
		defer func() {
			if r := recover(); r != nil {
				done <- fmt.Errorf("PANIC in request: %v", r)
			}
		}()
		done <- svc.TestBlocks(ctx, false, req, col.Collect)
	}()
	select {
	case err := <-done:
		res.Err = err
	case <-time.After(cfg.Timeout + 5*time.Second):
		res.Err = fmt.Errorf("HANG: request did not return within %s", cfg.Timeout)
	}
	col.mu.Lock()
	col.closed = res.Err != nil
	col.mu.Unlock()
	res.Wall = time.Since(t0)
	return res
}

type nullEmitter struct{}

func (nullEmitter) Emit(context.Context, dmetering.Event) {}
func (nullEmitter) Shutdown(error)                        {}

// ---- cache directory helpers

// ListFiles returns the relative paths of every file under Dir/test.store (sorted).
func ListFiles(dir string) []string {
	root := filepath.Join(dir, "test.store")
	var out []string
	filepath.Walk(root, func(p string, info os.FileInfo, err error) error {
		if err != nil || info.IsDir() {
			return nil
		}
		rel, _ := filepath.Rel(root, p)
		out = append(out, rel)
		return nil
	})
	sort.Strings(out)
	return out
}

var scratchSeq int64

// Scratch returns a fresh directory on tmpfs.
func Scratch(tag string) string {
	base := os.Getenv("VERIF_SHM")
	if base == "" {
		base = "/dev/shm"
	}
	d := filepath.Join(base, fmt.Sprintf("verifx.%d", os.Getpid()), fmt.Sprintf("%s.%d", tag, atomic.AddInt64(&scratchSeq, 1)))
	if err := os.MkdirAll(d, 0o755); err != nil {
		panic(err)
	}
	return d
}

// CleanupAll removes this process' scratch root.
func CleanupAll() {
	base := os.Getenv("VERIF_SHM")
	if base == "" {
		base = "/dev/shm"
	}
	os.RemoveAll(filepath.Join(base, fmt.Sprintf("verifx.%d", os.Getpid())))
}

// CopyTree copies the cache of src into dst (only the listed relative files when keep != nil).
func CopyTree(src, dst string, keep map[string]bool) error {
	root := filepath.Join(src, "test.store")
	return filepath.Walk(root, func(p string, info os.FileInfo, err error) error {
		if err != nil || info.IsDir() {
			return err
		}
		rel, _ := filepath.Rel(root, p)
		if keep != nil && !keep[rel] {
			return nil
		}
		b, err := os.ReadFile(p)
		if err != nil {
			return err
		}
		out := filepath.Join(dst, "test.store", rel)
		if err := os.MkdirAll(filepath.Dir(out), 0o755); err != nil {
			return err
		}
		return os.WriteFile(out, b, 0o644)
	})
}

// MustRead returns the bytes of a cache file.
func MustRead(dir, rel string) []byte {
	b, err := os.ReadFile(filepath.Join(dir, "test.store", rel))
	if err != nil {
		panic(err)
	}
	return b
}

func RemoveDir(dir string) { os.RemoveAll(dir) }

// ReadSnapshot loads the full snapshot of store module `name` ending at block `end` from the cache directory through the
// real store loader and renders it as sorted "key=value" pairs ("" + error when the file is absent or unreadable).
func ReadSnapshot(dir string, mods *pbsubstreams.Modules, output, name string, end uint64) (string, error) {
	g, err := exec.NewOutputModuleGraph(output, true, mods, 0)
	if err != nil {
		return "", err
	}
	var mod *pbsubstreams.Module
	for _, m := range mods.Modules {
		if m.Name == name {
			mod = m
		}
	}
	if mod == nil || mod.GetKindStore() == nil {
		return "", fmt.Errorf("%s is not a store module", name)
	}
	base, err := dstore.NewStore(filepath.Join(dir, "test.store"), "zst", "zstd", true)
	if err != nil {
		return "", err
	}
	tagged, err := base.SubStore("tag")
	if err != nil {
		return "", err
	}
	cfg, err := store.NewConfig(name, mod.InitialBlock, g.ModuleHashes().Get(name), mod.GetKindStore().UpdatePolicy, mod.GetKindStore().ValueType, tagged)
	if err != nil {
		return "", err
	}
	ctx := dmetering.WithBytesMeter(reqctx.WithLogger(context.Background(), zap.NewNop()))
	kv := cfg.NewFullKV(zap.NewNop())
	if err := kv.Load(ctx, store.NewCompleteFileInfo(name, mod.InitialBlock, end)); err != nil {
		return "", err
	}
	var kvs []string
	kv.Iter(func(k string, v []byte) error { kvs = append(kvs, fmt.Sprintf("%s=%s", k, v)); return nil })
	sort.Strings(kvs)
	return strings.Join(kvs, " "), nil
}
