package sysrun

import (
	"fmt"

	"github.com/streamingfast/bstream"
	"github.com/streamingfast/bstream/forkable"
	pbbstream "github.com/streamingfast/bstream/pb/sf/bstream/v1"
	"google.golang.org/protobuf/types/known/timestamppb"
)

// ForkTree: blocks 1..n above a genesis block arrive in index order; Parents[i-1] in 0..i-1 is the index of block i's
// parent (0 = genesis). This enumerates fork tree and arrival order together.
type ForkTree struct {
	Genesis uint64 // height of the genesis block (final)
	Parents []int
	// LibLag: 0 = the final block stays at genesis; k > 0 = every arriving block declares as final its ancestor k below
	LibLag int
}

type ForkBlock struct {
	Index  int
	Num    uint64
	ID     string
	Parent int
}

// Blocks: heights and ids ("<height><letter>", letters in order of arrival per height).
func (t ForkTree) Blocks() []ForkBlock {
	out := []ForkBlock{{Index: 0, Num: t.Genesis, ID: fmt.Sprintf("%da", t.Genesis), Parent: -1}}
	perHeight := map[uint64]int{}
	for i, p := range t.Parents {
		h := out[p].Num + 1
		id := fmt.Sprintf("%d%c", h, 'a'+perHeight[h])
		perHeight[h]++
		out = append(out, ForkBlock{Index: i + 1, Num: h, ID: id, Parent: p})
	}
	return out
}

// Steps runs the arrival sequence through the real bstream fork resolver (same options as the repository's test
// block generator) and returns the (block, step, cursor, junction) objects it emits.
func (t ForkTree) Steps(start, stop uint64, cursor string, tier2 bool) []Step {
	blocks := t.Blocks()
	var out []Step
	gen := blocks[0]
	// The resolver is initialised one block below genesis and genesis is fed as an ordinary block: the bstream fork
	// database does not keep a link for its initial inclusive LIB block, so a reorg whose junction is that very
	// block would be emitted with a nil junction (a property of the library's start-up, never of a running hub).
	pre := ForkBlock{Num: gen.Num - 1, ID: fmt.Sprintf("%da", gen.Num-1)}
	fk := forkable.New(bstream.HandlerFunc(func(blk *pbbstream.Block, obj interface{}) error {
		fo := obj.(*forkable.ForkableObject)
		c := fo.Cursor()
		s := Step{Num: blk.Number, ID: blk.Id, ParentID: blk.ParentId, Step: fo.Step(), LIBNum: c.LIB.Num(), LIBID: c.LIB.ID(), HeadNum: c.HeadBlock.Num(), HeadID: c.HeadBlock.ID(), Junction: fo.ReorgJunctionBlock()}
		out = append(out, s)
		return nil
	}), forkable.HoldBlocksUntilLIB(), forkable.WithWarnOnUnlinkableBlocks(100), forkable.WithInclusiveLIB(bstream.NewBlockRef(pre.ID, pre.Num)))
	if err := fk.ProcessBlock(&pbbstream.Block{Id: pre.ID, Number: pre.Num, ParentId: "", Timestamp: timestamppb.New(BlockTime(pre.Num)), LibNum: pre.Num, ParentNum: pre.Num - 1}, nil); err != nil {
		panic(err)
	}
	for _, b := range blocks {
		lib := pre
		if t.LibLag > 0 {
			a := b
			for k := 0; k < t.LibLag && a.Parent >= 0; k++ {
				a = blocks[a.Parent]
			}
			lib = a
		}
		parentID := pre.ID
		if b.Parent >= 0 {
			parentID = blocks[b.Parent].ID
		}
		bs := &pbbstream.Block{Id: b.ID, Number: b.Num, ParentId: parentID, Timestamp: timestamppb.New(BlockTime(b.Num)), LibNum: lib.Num}
		if b.Num > 0 {
			bs.ParentNum = b.Num - 1
		}
		if err := fk.ProcessBlock(bs, nil); err != nil {
			panic(fmt.Sprintf("fork resolver rejected block %s: %v", b.ID, err))
		}
	}
	var filtered []Step
	for _, s := range out {
		if s.Num >= start {
			filtered = append(filtered, s)
		}
	}
	return filtered
}
