// Package c08: store reads honour ordinals — get_first/get_last/get_at/has_* match the deltas.
package c08

import (
	"bytes"
	"fmt"
	"strings"
	"sync"

	pbsubstreams "github.com/streamingfast/substreams/pb/sf/substreams/v1"
	"github.com/streamingfast/substreams/storage/store"
	"go.uber.org/zap"

	"verifharness/core"
	"verifharness/refmodel"
	"verifharness/storedrv"
)

type Case struct {
	Combo refmodel.Combo `json:"combo"`
	Pre   int            `json:"pre"`
	Ops   []refmodel.Op  `json:"ops"`
}

var envPool = sync.Pool{New: func() any { return storedrv.NewEnv() }}
var cfgCache sync.Map // combo string -> *store.Config

func config(c refmodel.Combo) *store.Config {
	if v, ok := cfgCache.Load(c.String()); ok {
		return v.(*store.Config)
	}
	cfg := storedrv.NewConfig(c, 0, storedrv.MemStore())
	cfgCache.Store(c.String(), cfg)
	return cfg
}

var queryKeys = []string{"a", "ab", "b", "zz"}
var queryOrds = []uint64{0, 1, 2, 3, 1 << 63, ^uint64(0)}

func Eval(cs Case) (*core.Fail, bool) {
	env := envPool.Get().(*storedrv.Env)
	defer envPool.Put(env)
	c := cs.Combo
	pol := c.Policy
	real := config(c).NewFullKV(zap.NewNop())
	ref := refmodel.NewStore(c)
	pre := refmodel.PreStates(c)[cs.Pre]
	if len(pre) > 0 {
		if err := env.ApplyBlock(real, c, pre); err != nil {
			return core.Failf(pol+":pre-flush-error", "%s pre %s: %v", c, storedrv.FmtOps(pre), err), false
		}
		ref.ApplyBlock(pre)
	}
	if err := env.ApplyBlock(real, c, cs.Ops); err != nil {
		return core.Failf(pol+":flush-error", "%s pre %s ops %s: %v", c, storedrv.FmtOps(pre), storedrv.FmtOps(cs.Ops), err), false
	}
	ref.ApplyBlock(cs.Ops)
	desc := func() string {
		return fmt.Sprintf("%s pre=%s ops=%s", c, storedrv.FmtOps(pre), storedrv.FmtOps(cs.Ops))
	}

	// post-block content equals the model's
	got, _, perr := storedrv.Content(real, c)
	if perr != nil {
		return core.Failf(pol+":unparsable-value", "%s: %v", desc(), perr), false
	}
	if d := storedrv.DiffContent(got, ref); d != "" {
		return core.Failf(pol+":content", "%s: %s", desc(), d), false
	}

	// every read, through store.Reader and through the host interface of a reading module
	rc := env.ReaderCall(real)
	typed := func(b []byte, found bool) (*refmodel.Val, *core.Fail) {
		if !found {
			return nil, nil
		}
		v, err := refmodel.ParseImpl(c, b)
		if err != nil {
			return nil, core.Failf(pol+":unparsable-read", "%s: %v", desc(), err)
		}
		return v, nil
	}
	for _, k := range queryKeys {
		type q struct {
			name  string
			val   []byte
			found bool
			has   bool
			want  *refmodel.Val
			hval  []byte
			hfnd  bool
			hhas  bool
		}
		var qs []q
		{
			v, f := real.GetFirst(k)
			hv, hf := rc.DoGetFirst(0, k)
			qs = append(qs, q{"first", v, f, real.HasFirst(k), ref.First(k), hv, hf, rc.DoHasFirst(0, k)})
		}
		{
			v, f := real.GetLast(k)
			hv, hf := rc.DoGetLast(0, k)
			qs = append(qs, q{"last", v, f, real.HasLast(k), ref.Last(k), hv, hf, rc.DoHasLast(0, k)})
		}
		for _, o := range queryOrds {
			v, f := real.GetAt(o, k)
			hv, hf := rc.DoGetAt(0, o, k)
			qs = append(qs, q{fmt.Sprintf("at(%d)", o), v, f, real.HasAt(o, k), ref.At(o, k), hv, hf, rc.DoHasAt(0, o, k)})
		}
		for _, x := range qs {
			kind := strings.SplitN(x.name, "(", 2)[0]
			gv, fl := typed(x.val, x.found)
			if fl != nil {
				return fl, false
			}
			if !gv.Equal(x.want) {
				return core.Failf(pol+":get_"+kind+":value", "%s: get_%s(%q) = %s, model says %s", desc(), x.name, k, gv, x.want), false
			}
			if x.has != x.found {
				return core.Failf("has_"+kind+"!=found(get_"+kind+")", "%s: has_%s(%q)=%v but get_%s found=%v (model: %s)", desc(), x.name, k, x.has, x.name, x.found, x.want), false
			}
			if x.hfnd != x.found || !bytes.Equal(x.hval, x.val) || x.hhas != x.has {
				return core.Failf(pol+":host-interface-differs", "%s: %s(%q) via wasm.Call differs from store.Reader", desc(), x.name, k), false
			}
		}
	}

	// deltas: applied in order to the pre-block content give the post-block content; each old value is the value just before
	run := map[string]*refmodel.Val{}
	for k, v := range ref.Pre {
		run[k] = v
	}
	var lastOrd uint64
	for i, d := range real.GetDeltas() {
		if d.Ordinal < lastOrd {
			return core.Failf(pol+":delta-order", "%s: delta %d has ordinal %d after %d", desc(), i, d.Ordinal, lastOrd), false
		}
		lastOrd = d.Ordinal
		cur := run[d.Key]
		switch d.Operation {
		case pbsubstreams.StoreDelta_CREATE:
			if cur != nil {
				return core.Failf(pol+":delta-create-existing", "%s: delta %d CREATE %q but value before is %s", desc(), i, d.Key, cur), false
			}
		case pbsubstreams.StoreDelta_UPDATE, pbsubstreams.StoreDelta_DELETE:
			if cur == nil {
				return core.Failf(pol+":delta-old-absent", "%s: delta %d %s %q but key absent just before", desc(), i, d.Operation, d.Key), false
			}
			ov, err := refmodel.ParseImpl(c, d.OldValue)
			if err != nil || !ov.Equal(cur) {
				return core.Failf(pol+":delta-old-value", "%s: delta %d %s %q old=%q, value just before is %s", desc(), i, d.Operation, d.Key, d.OldValue, cur), false
			}
		default:
			return core.Failf(pol+":delta-op", "%s: delta %d has operation %v", desc(), i, d.Operation), false
		}
		if d.Operation == pbsubstreams.StoreDelta_DELETE {
			delete(run, d.Key)
		} else {
			nv, err := refmodel.ParseImpl(c, d.NewValue)
			if err != nil {
				return core.Failf(pol+":delta-new-unparsable", "%s: delta %d: %v", desc(), i, err), false
			}
			run[d.Key] = nv
		}
	}
	if d := storedrv.DiffContent(run, ref); d != "" {
		return core.Failf(pol+":deltas-do-not-give-post-state", "%s: %s", desc(), d), false
	}
	return nil, nontrivial(cs.Ops)
}

// non-trivial: >= 2 operations on one key with different ordinals, or a delete_prefix hitting a key written in the block
func nontrivial(ops []refmodel.Op) bool {
	for i, a := range ops {
		for j, b := range ops {
			if i == j {
				continue
			}
			if a.T == "w" && b.T == "w" && a.K == b.K && a.O != b.O {
				return true
			}
			if a.T == "w" && b.T == "d" && strings.HasPrefix(a.K, b.K) {
				return true
			}
		}
	}
	return false
}

type longBlock struct{ length, ords int }

func longBlocks(thorough bool) []longBlock {
	if thorough {
		return []longBlock{{13, 2}, {14, 2}, {15, 2}, {16, 2}, {17, 2}, {13, 3}, {24, 2}}
	}
	return []longBlock{{13, 2}, {14, 2}, {16, 2}}
}

func Run(ctx *core.Ctx) int {
	ctx.Level = "exploration"
	if ctx.Replay != "" {
		return core.RunReplay(ctx, Eval)
	}
	combos := refmodel.CoreCombos()
	maxLen, nvals := 3, 2
	ords := []uint64{0, 1, 2}
	if ctx.Thorough() {
		combos = refmodel.AllCombos()
		combos = append(combos, refmodel.Combo{Policy: "set_sum", VT: "bigfloat"})
		nvals = 3
	}
	if v, ok := ctx.Args["maxlen"]; ok {
		fmt.Sscan(v, &maxLen)
	}
	var seqs int64
	st := core.ParallelEnum(ctx, func(emit func(Case) bool) {
		for _, c := range combos {
			alpha := refmodel.OpAlphabet(c, nvals, ords)
			for pre := range refmodel.PreStates(c) {
				ok := refmodel.Sequences(alpha, maxLen, func(seq []refmodel.Op) bool {
					seqs++
					return emit(Case{Combo: c, Pre: pre, Ops: seq})
				})
				if !ok {
					return
				}
			}
		}
		// ordinals are free 64-bit numbers: operations whose ordinals are 2^63 or more apart
		for _, c := range combos {
			alpha := refmodel.OpAlphabet(c, 1, []uint64{0, 1 << 63, ^uint64(0)})
			for pre := range refmodel.PreStates(c) {
				ok := refmodel.Sequences(alpha, 3, func(seq []refmodel.Op) bool {
					seqs++
					return emit(Case{Combo: c, Pre: pre, Ops: seq})
				})
				if !ok {
					return
				}
			}
		}
		// long blocks: more operations in one block than the threshold (12) below which Go's sort routines fall back to
		// insertion sort, all on one key with a distinct value each, every ordinal vector over a small ordinal set.
		// "Stable ordinal order" must hold for every block length, and only the ordinal pattern matters here.
		for _, lb := range longBlocks(ctx.Thorough()) {
			for _, c := range []refmodel.Combo{{Policy: "set", VT: "string"}, {Policy: "append", VT: "bytes"}, {Policy: "set_if_not_exists", VT: "string"}, {Policy: "add", VT: "int64"}} {
				n := 1
				for i := 0; i < lb.length; i++ {
					n *= lb.ords
				}
				for code := 0; code < n; code++ {
					seq := make([]refmodel.Op, lb.length)
					x := code
					for i := range seq {
						v := fmt.Sprintf("v%02d", i)
						if c.VT == "int64" {
							v = fmt.Sprint(1 << uint(i))
						}
						seq[i] = refmodel.Op{T: "w", K: "a", V: v, O: uint64(x % lb.ords)}
						x /= lb.ords
					}
					seqs++
					if !emit(Case{Combo: c, Pre: 0, Ops: seq}) {
						return
					}
				}
			}
		}
	}, Eval)
	c0 := combos[3]
	a0 := refmodel.OpAlphabet(c0, nvals, ords)
	ctx.Sample(Case{Combo: c0, Pre: 1, Ops: []refmodel.Op{a0[0], a0[len(a0)-3], a0[7]}})
	ctx.Sample(Case{Combo: combos[0], Pre: 2, Ops: []refmodel.Op{a0[len(a0)-1], a0[1]}})
	ctx.Cov["evaluations"] = st.Evaluations
	ctx.Cov["distinct_nontrivial"] = st.NonTrivial
	ctx.Cov["exhaustive"] = true
	ctx.Cov["combos"] = len(combos)
	ctx.Cov["queries_per_case"] = len(queryKeys) * (2 + len(queryOrds)) * 2
	ctx.Cov["rule"] = fmt.Sprintf("%d (policy,value type) combos x 3 pre-states built through the real write path x every operation sequence of length <=%d over (3 keys x %d values x ordinals {0,1,2}) + (delete_prefix of a,b,'' x ordinals); after Flush every get/has first/last/at on 4 keys x ordinals 0..3 via store.Reader and via wasm.Call.Do*, plus the delta list replayed on the pre-state. Non-trivial: >=2 writes to one key with different ordinals, or a delete_prefix hitting a key written in the block. Distinct by construction. Plus every sequence of <=3 operations with ordinals from {0, 2^63, 2^64-1} (1 value). Plus long blocks: %v (length, number of ordinals) operations on one key with a distinct value each, every ordinal vector, policies set/append/set_if_not_exists/add.", len(combos), maxLen, nvals, longBlocks(ctx.Thorough()))
	ctx.Assume = []string{
		"numeric alphabets are dyadic rationals of small magnitude (exact float/decimal sums, no int64 overflow, no 34-digit truncation)",
		"values compared typed: numbers as numbers, set_sum after stripping the set:/sum: tag, bytes bytewise",
		"reference model: refmodel.Store (map + textbook policies), uses no substreams store code",
	}
	return ctx.Finish(core.JSONRecheck(ctx.Prop, Eval))
}
