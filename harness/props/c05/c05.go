// Package c05: the segment scheduler is safe and live under every ordering of events.
package c05

import (
	"fmt"
	"sort"
	"strings"
	"sync"
	"sync/atomic"
	"time"

	"verifharness/core"
	"verifharness/progs"
	"verifharness/props/c07"
	"verifharness/schedx"
	"verifharness/script"
	"verifharness/sysrun"
	"verifharness/sysx"
)

type Case struct {
	Prog        string   `json:"prog"`
	Seg         uint64   `json:"seg"`
	Prod        bool     `json:"prod"`
	Start       uint64   `json:"start"`
	Stop        uint64   `json:"stop"`
	Final       int64    `json:"final"`
	Workers     int      `json:"workers"`
	Cache       string   `json:"cache"` // empty | complete | subset:<mask>
	Cap         int      `json:"cap"`   // multiplicity cap of idempotent messages in the state key (0 = exact)
	extra       bool     // added by the thorough tier: explored after everything the quick tier explores
	LateLoader  bool     `json:"late_loader,omitempty"`  // with partial_wins: the losing full-snapshot load completes during a later merge of the same module
	PartialWins bool     `json:"partial_wins,omitempty"` // squasher load race: the partial wins although the full snapshot exists
	Path        []string `json:"path,omitempty"`         // artefact: the event path to replay
}

// firstSegmentFiles: the partial store files and cached output files of the segment [0, seg) in a C07 universe.
func firstSegmentFiles(names []string, seg uint64) []string {
	var out []string
	for _, n := range names {
		if (strings.Contains(n, ".partial") && strings.Contains(n, fmt.Sprintf("/%010d-%010d.", seg, 0))) ||
			(strings.Contains(n, ".output") && strings.Contains(n, fmt.Sprintf("/%010d-%010d.", 0, seg))) {
			out = append(out, n)
		}
	}
	return out
}

func (c Case) String() string {
	return fmt.Sprintf("%s seg=%d prod=%v [%d,%d) final=%d workers=%d cache=%s cap=%d", c.Prog, c.Seg, c.Prod, c.Start, c.Stop, c.Final, c.Workers, c.Cache, c.Cap) + map[bool]string{true: " partial-wins", false: ""}[c.PartialWins] + map[bool]string{true: " late-loader", false: ""}[c.LateLoader]
}

var programs = map[string]func() *progs.Prog{
	"storemap-0-0":    func() *progs.Prog { return progs.StoreMap(0, 0) },
	"storemap-3-1":    func() *progs.Prog { return progs.StoreMap(3, 1) }, // the store's first segment is empty
	"storemap-1-3":    func() *progs.Prog { return progs.StoreMap(1, 3) }, // the map stage starts one segment after the store
	"twostages-0-0-0": func() *progs.Prog { return progs.TwoStages(0, 0, 0) },
	"twostages-1-2-3": func() *progs.Prog { return progs.TwoStages(1, 2, 3) },
	"samestage-0-3-0": func() *progs.Prog { return progs.SameStage(0, 3, 0) }, // two stores in one stage, initial blocks in different segments
	"maponly-1":       func() *progs.Prog { return progs.MapOnly(1) },
	"index":           func() *progs.Prog { return progs.Index() },
	"storemap-2-3":    func() *progs.Prog { return progs.StoreMap(2, 3) },
	"storemap-7-4":    func() *progs.Prog { return progs.StoreMap(7, 4) },
	"twostages-1-4-6": func() *progs.Prog { return progs.TwoStages(1, 4, 6) },
	"samestage-1-7-3": func() *progs.Prog { return progs.SameStage(1, 7, 3) },
	"clocksparse2-2":  func() *progs.Prog { return progs.ClockSparse2(2) },
}

func buildConfig(c Case) (*schedx.Config, *progs.Prog, error) {
	mk := programs[c.Prog]
	if mk == nil {
		return nil, nil, fmt.Errorf("unknown program %q", c.Prog)
	}
	p := mk()
	cfg := &schedx.Config{Modules: p.Modules, Output: p.Output, Prod: c.Prod, Seg: c.Seg, Start: c.Start, Stop: c.Stop, Final: c.Final, Workers: c.Workers, Cap: c.Cap, PartialWins: c.PartialWins, LateLoader: c.LateLoader}
	if c.Cache == "partials" || c.Cache == "partials-seg0" {
		// the cache a crash leaves between the completion of the jobs and their merges: the partial store files (of every
		// segment, or of the first one only), no full snapshot, no mapper output
		names, content, err := c07.Universe(c07.Shape{Prog: c.Prog, Seg: c.Seg, Prod: c.Prod, Start: c.Start, Stop: c.Stop, Final: c.Final})
		if err != nil {
			return nil, nil, err
		}
		cfg.Initial = map[string][]byte{}
		for _, n := range names {
			if !strings.Contains(n, ".partial") {
				continue
			}
			if c.Cache == "partials-seg0" && !strings.Contains(n, fmt.Sprintf("/%010d-", c.Seg)) {
				continue
			}
			cfg.Initial[n] = content[n]
		}
		return cfg, p, nil
	}
	if strings.HasPrefix(c.Cache, "seg0mask:") {
		// every subset of the files of the first segment (partial files of each store stage, cached outputs): the caches in
		// which an upper stage has its partial while a lower stage has nothing (and the other way round)
		var mask uint64
		fmt.Sscanf(c.Cache, "seg0mask:%d", &mask)
		names, content, err := c07.Universe(c07.Shape{Prog: c.Prog, Seg: c.Seg, Prod: c.Prod, Start: c.Start, Stop: c.Stop, Final: c.Final})
		if err != nil {
			return nil, nil, err
		}
		cfg.Initial = map[string][]byte{}
		for i, n := range firstSegmentFiles(names, c.Seg) {
			if mask&(1<<uint(i)) != 0 {
				cfg.Initial[n] = content[n]
			}
		}
		return cfg, p, nil
	}
	if strings.HasPrefix(c.Cache, "c07mask:") {
		// a cache state of the C07 universe of the same request: files of a complete run + partials of jobs run alone
		var mask uint64
		fmt.Sscanf(c.Cache, "c07mask:%d", &mask)
		names, content, err := c07.Universe(c07.Shape{Prog: c.Prog, Seg: c.Seg, Prod: c.Prod, Start: c.Start, Stop: c.Stop, Final: c.Final})
		if err != nil {
			return nil, nil, err
		}
		cfg.Initial = map[string][]byte{}
		for i, n := range names {
			if mask&(1<<uint(i)) != 0 {
				cfg.Initial[n] = content[n]
			}
		}
		return cfg, p, nil
	}
	if c.Cache != "empty" && c.Cache != "" {
		// files of a complete whole-system run of the same request
		dir := sysrun.Scratch("c05base")
		head := c.Stop + 3
		var final uint64
		if c.Final >= 0 {
			final = uint64(c.Final)
		}
		r := sysrun.Run(sysrun.Config{Modules: p.Modules, Output: p.Output, Prod: c.Prod, Seg: c.Seg, Start: int64(c.Start), Stop: c.Stop, Final: final, Dir: dir, Source: sysrun.LinearChain{Head: head, Final: head}, Timeout: 15 * time.Second})
		if r.Err != nil {
			return nil, nil, fmt.Errorf("complete run for the initial cache failed: %w", r.Err)
		}
		files := map[string][]byte{}
		names := sysrun.ListFiles(dir)
		var kept []string
		for _, n := range names {
			if strings.HasSuffix(n, ".tmp") || strings.Contains(n, "substreams.partial.spkg") {
				continue
			}
			kept = append(kept, n)
		}
		sort.Strings(kept)
		var mask uint64 = ^uint64(0)
		if strings.HasPrefix(c.Cache, "subset:") {
			fmt.Sscanf(c.Cache, "subset:%d", &mask)
		}
		// kv:<mask>  only the full snapshots selected by mask (holes in the snapshot sequence: pruned or evicted files)
		// kvo:<mask> the same + every cached output file
		var kvMask uint64
		kvMode := ""
		if strings.HasPrefix(c.Cache, "kv:") {
			kvMode = "kv"
			fmt.Sscanf(c.Cache, "kv:%d", &kvMask)
		} else if strings.HasPrefix(c.Cache, "kvo:") {
			kvMode = "kvo"
			fmt.Sscanf(c.Cache, "kvo:%d", &kvMask)
		}
		kvIdx := 0
		for i, n := range kept {
			if kvMode != "" {
				isKV := strings.Contains(n, "/states/") && strings.Contains(n, ".kv")
				switch {
				case isKV:
					if kvMask&(1<<uint(kvIdx)) != 0 {
						files[n] = sysrun.MustRead(dir, n)
					}
					kvIdx++
				case kvMode == "kvo" && strings.Contains(n, "/outputs/"):
					files[n] = sysrun.MustRead(dir, n)
				}
				continue
			}
			if mask&(1<<uint(i)) != 0 {
				files[n] = sysrun.MustRead(dir, n)
			}
		}
		cfg.Initial = files
		sysrun.RemoveDir(dir)
	}
	return cfg, p, nil
}

// refDumps: sequential reference content of every store of a program at every block, computed once per program.
var refMu sync.Mutex
var refDumps = map[string]map[string]map[uint64]string{}

func refDump(p *progs.Prog, upTo uint64) map[string]map[uint64]string {
	refMu.Lock()
	defer refMu.Unlock()
	key := fmt.Sprintf("%s/%d", p.Name, upTo)
	if d, ok := refDumps[key]; ok {
		return d
	}
	d := map[string]map[uint64]string{}
	it, err := script.NewInterp(p.Modules, p.Output)
	if err == nil {
		for name := range it.Stores {
			d[name] = map[uint64]string{}
		}
		for n := it.LowestInit(); n < upTo; n++ {
			it.Step(script.Blk{Num: n, ID: sysrun.BlockID(n)})
			for name := range it.Stores {
				d[name][n+1] = it.StoreDump(name) // content after block n = the store "at" n+1
			}
		}
	}
	refDumps[key] = d
	return d
}

func oracle(c Case, p *progs.Prog) schedx.Oracle {
	return schedx.Oracle{Every: func(w *schedx.World) string {
		// the store the squasher keeps in memory between merges is labelled with a block: it must hold what a
		// sequential execution holds at that block (FinalStoreMap and the next merge trust the label)
		ref := refDump(p, w.Handoff()+1)
		for name, c := range w.StoreCaches() {
			want, ok := ref[name][c.Block]
			if !ok {
				continue // labelled with the module's initial block or a block the reference does not reach: empty store
			}
			if c.Dump != want {
				return fmt.Sprintf("the squasher's in-memory store of %s is labelled with block %d but holds {%s}; a sequential execution holds {%s} there", name, c.Block, c.Dump, want)
			}
		}
		return ""
	}, Terminal: func(w *schedx.World) string {
		H := w.Handoff()
		// streamed outputs: exactly the reference outputs of [start, min(H, stop)) once, in order
		end := H
		if c.Stop != 0 && c.Stop < end {
			end = c.Stop
		}
		var want []sysx.Row
		if c.Prod && c.Start < H {
			ref, _, err := sysx.Reference(p.Modules, p.Output, end)
			if err != nil {
				return "harness: " + err.Error()
			}
			want = sysx.Restrict(ref, c.Start, end)
		}
		if d := sysx.Diff(sysx.NonEmpty(w.Data), want); d != "" {
			return fmt.Sprintf("streamed cached outputs differ from the reference for [%d,%d): %s; got %s", c.Start, end, d, sysx.FmtRows(sysx.NonEmpty(w.Data)))
		}
		var prev int64 = -1
		for _, d := range w.Data {
			if int64(d.Num) <= prev {
				return fmt.Sprintf("streamed block %d after %d", d.Num, prev)
			}
			prev = int64(d.Num)
		}
		// stores at the hand-off
		got, err := w.FinalStores()
		if err != nil {
			return "stores were not built up to the hand-off: " + err.Error()
		}
		if got != nil {
			it, err := script.NewInterp(p.Modules, p.Output)
			if err != nil {
				return "harness: " + err.Error()
			}
			for n := it.LowestInit(); n < H; n++ {
				it.Step(script.Blk{Num: n, ID: sysrun.BlockID(n)})
			}
			for name := range it.Stores {
				if g, ok := got[name]; ok {
					if want := it.StoreDump(name); g != want {
						return fmt.Sprintf("store %s at the hand-off %d is {%s}, a sequential execution gives {%s}", name, H, g, want)
					}
				} else if want := it.StoreDump(name); want != "" {
					return fmt.Sprintf("store %s is missing from the final store map at the hand-off %d (sequential: {%s})", name, H, want)
				}
			}
		}
		// the snapshot files: "all stores built up to the hand-off" also when no linear part follows (the request ends at
		// the hand-off and nobody asks for the final store map): the full snapshot at the end of the store range must exist
		// for every store that starts below it and hold what a sequential execution gives
		if end, ok := w.BuildStoresEnd(); ok {
			it, err := script.NewInterp(p.Modules, p.Output)
			if err != nil {
				return "harness: " + err.Error()
			}
			for n := it.LowestInit(); n < end; n++ {
				it.Step(script.Blk{Num: n, ID: sysrun.BlockID(n)})
			}
			for name := range it.Stores {
				if it.InitOf(name) >= end {
					continue
				}
				g, err := sysrun.ReadSnapshot(w.Dir, p.Modules, p.Output, name, end)
				if err != nil {
					return fmt.Sprintf("store %s has no readable full snapshot at %d, the end of the planned store range: %v", name, end, err)
				}
				if want := it.StoreDump(name); g != want {
					return fmt.Sprintf("the snapshot of store %s at %d holds {%s}, a sequential execution gives {%s}", name, end, g, want)
				}
			}
		}
		return ""
	}}
}

type outcome struct {
	fail *core.Fail
	res  schedx.Result
}

func explore(c Case, maxStates int, budget time.Duration, par int) outcome {
	cfg, p, err := buildConfig(c)
	if err != nil {
		return outcome{fail: core.Failf("harness:config", "%s: %v", c, err)}
	}
	x := &schedx.Explorer{Cfg: cfg, Oracle: oracle(c, p), MaxStates: maxStates, Deadline: time.Now().Add(budget), Workers: par}
	res := x.BFS()
	if res.Violation != "" {
		key := classify(res.Violation)
		return outcome{fail: core.Failf(key, "%s: %s\n    path (%d events): %s", c, res.Violation, len(res.Path), strings.Join(res.Path, " , ")), res: res}
	}
	return outcome{res: res}
}

func classify(v string) string {
	switch {
	case strings.Contains(v, "no unit is in the Merging state"):
		return "merge-not-claimed"
	case strings.HasPrefix(v, "harness"):
		return "harness"
	case strings.HasPrefix(v, "deadlock"):
		return "deadlock"
	case strings.HasPrefix(v, "livelock"):
		return "livelock"
	case strings.Contains(v, "panic"):
		return "panic-in-update"
	case strings.Contains(v, "ends with an error"):
		if strings.Contains(v, "not found") {
			return "request-error:not-found"
		}
		return "request-error"
	case strings.Contains(v, "terminal outcome depends"):
		return "outcome-depends-on-schedule"
	case strings.Contains(v, "merged segments"):
		return "merge-order"
	case strings.Contains(v, "jobs in flight"):
		return "too-many-jobs"
	case strings.Contains(v, "in-memory store of"):
		return "in-memory-store-mislabelled"
	case strings.Contains(v, "store "):
		return "stores-at-hand-off"
	case strings.Contains(v, "streamed"):
		return "streamed-outputs"
	}
	return "other"
}

// Eval replays one recorded path (artefact) or explores one configuration.
func Eval(c Case) (*core.Fail, bool) {
	if len(c.Path) > 0 {
		cfg, p, err := buildConfig(c)
		if err != nil {
			return core.Failf("harness:config", "%v", err), false
		}
		memo := schedx.NewMemo()
		w, err := schedx.NewWorld(cfg, memo)
		if err != nil {
			return core.Failf("harness:world", "%v", err), false
		}
		defer w.Close()
		for _, id := range c.Path {
			if err := w.Step(id); err != nil {
				return core.Failf("harness:replay", "%v", err), false
			}
		}
		if w.Violation != "" {
			return core.Failf(classify(w.Violation), "%s: %s", c, w.Violation), true
		}
		if w.Quit {
			if w.QuitErr != nil {
				return core.Failf(classify("ends with an error "+w.QuitErr.Error()), "%s: request ends with an error: %v", c, w.QuitErr), true
			}
			if v := oracle(c, p).Terminal(w); v != "" {
				return core.Failf(classify(v), "%s: %s", c, v), true
			}
			return nil, true
		}
		if len(w.Enabled()) == 0 {
			return core.Failf("deadlock", "%s: deadlock after the recorded path: %s", c, w.Describe()), true
		}
		// a livelock artefact: explore from scratch
	}
	o := explore(c, 0, 10*time.Minute, 0)
	return o.fail, true
}

func Run(ctx *core.Ctx) int {
	ctx.Level = "model_checking"
	defer sysrun.CleanupAll()
	if ctx.Replay != "" {
		return core.RunReplay(ctx, Eval)
	}
	var cases []Case
	capDefault := 2
	if v, ok := ctx.Args["cap"]; ok {
		fmt.Sscan(v, &capDefault)
	}
	add := func(prog string, seg uint64, prod bool, start, stop uint64, final int64, workers []int, caches []string) {
		for _, w := range workers {
			for _, ca := range caches {
				cases = append(cases, Case{Prog: prog, Seg: seg, Prod: prod, Start: start, Stop: stop, Final: final, Workers: w, Cache: ca, Cap: capDefault})
			}
		}
	}
	w12 := []int{1, 2}
	ec := []string{"empty", "complete"}
	// quick: <= 2 store stages x 3 segments, workers <= 2
	add("storemap-0-0", 2, true, 1, 6, 6, w12, ec)      // 1 store stage + map, 3 segments, all back-filled
	add("storemap-0-0", 2, true, 3, 9, 5, w12, ec)      // hand-off inside the request
	add("storemap-3-1", 2, true, 1, 6, 6, w12, ec)      // store stage's first segment empty
	add("twostages-0-0-0", 2, true, 1, 4, 4, w12, ec)   // 2 store stages + map, 2 segments
	add("twostages-0-0-0", 2, false, 5, 9, -1, w12, ec) // development mode: stores only
	add("samestage-0-3-0", 2, true, 1, 6, 6, w12, ec)   // two stores in one stage
	add("maponly-1", 2, true, 2, 7, 6, w12, ec)         // no store at all
	budget := 12 * time.Minute                          // the quick exploration takes about 4 minutes on an idle 16-core machine, 7 under load
	if spec := ctx.Args["case"]; spec != "" {
		// --case "prog seg prod start stop final workers cache"
		var c Case
		fmt.Sscan(spec, &c.Prog, &c.Seg, &c.Prod, &c.Start, &c.Stop, &c.Final, &c.Workers, &c.Cache)
		c.Cap = capDefault
		cases = []Case{c}
	}
	if only := ctx.Args["only"]; only != "" {
		var keep []Case
		for _, c := range cases {
			if strings.Contains(c.String(), only) {
				keep = append(keep, c)
			}
		}
		cases = keep
	}
	nQuick := 0
	if ctx.Thorough() {
		nQuick = len(cases)
		w123 := []int{1, 2, 3}
		add("twostages-0-0-0", 2, true, 1, 6, 6, w123, ec)                       // 2 store stages x 3 segments
		add("twostages-1-2-3", 2, true, 3, 8, 8, w123, ec)                       // different initial blocks
		add("twostages-0-0-0", 2, true, 1, 8, 8, []int{2, 3}, []string{"empty"}) // 3 x 4 grid
		add("storemap-0-0", 2, true, 1, 8, 8, w123, ec)
		// every subset of the complete run's files for the smallest grid
		for mask := uint64(1); mask < 1<<7; mask++ {
			add("storemap-0-0", 2, true, 1, 4, 4, []int{2}, []string{fmt.Sprintf("subset:%d", mask)})
		}
		budget = 100 * time.Minute
		// the exact multiset (no coalescing) on the quick grids, and the other outcome of the squasher's load race where
		// the cache holds both a partial and a full snapshot for some segment (it cannot matter on an empty cache)
		n := len(cases)
		for i := 0; i < n; i++ {
			c := cases[i]
			if strings.HasPrefix(c.Cache, "subset:") {
				pw := c
				pw.PartialWins = true
				cases = append(cases, pw)
				continue
			}
			if c.Workers <= 2 && c.Stop <= 6 && c.Cap != 0 {
				e := c
				e.Cap = 0
				cases = append(cases, e)
			}
		}
		for i := nQuick; i < len(cases); i++ {
			cases[i].extra = true
		}
		// smallest first, so that a search that exhausts its share of the budget does not starve the others
		ex := cases[nQuick:]
		rank := func(c Case) int {
			r := int(c.Stop-c.Start)*10 + c.Workers*3
			if c.Cap == 0 {
				r += 25
			}
			if c.Cache != "empty" {
				r -= 20
			}
			return r
		}
		sort.SliceStable(ex, func(a, b int) bool { return rank(ex[a]) < rank(ex[b]) })
	}
	add("storemap-1-3", 2, true, 3, 6, 6, w12, []string{"empty"}) // the first segment of the map stage still depends on the store's earlier segment
	// the cache a crash leaves between job completion and merges: partial store files only
	pc := []string{"partials-seg0", "partials"}
	add("twostages-0-0-0", 2, true, 1, 4, 4, w12, pc)
	add("storemap-0-0", 2, true, 1, 6, 6, w12, pc)
	// every subset of the first segment's files of a two-store-stage graph (an upper stage's partial without the lower one's)
	if ctx.Args["case"] == "" && ctx.Args["only"] == "" {
		sh := c07.Shape{Prog: "twostages-0-0-0", Seg: 2, Prod: true, Start: 1, Stop: 4, Final: 4}
		names, _, err := c07.Universe(sh)
		if err != nil {
			ctx.Violation(core.Failf("harness:universe", "%v", err), sh.Prog, 0)
		}
		k := len(firstSegmentFiles(names, sh.Seg))
		for mask := 1; mask < 1<<uint(k)-1; mask++ {
			add(sh.Prog, sh.Seg, true, sh.Start, sh.Stop, sh.Final, []int{2}, []string{fmt.Sprintf("seg0mask:%d", mask)})
		}
		ctx.Cov["first_segment_files_twostages"] = k
	}
	// holes in the snapshot sequence of a 3-segment grid (a later full snapshot present, an earlier one pruned), with and
	// without the cached outputs
	// every cached output present, no snapshot at all; and the same for a graph whose map starts below its store (the
	// mapper's files then start below the stores' segmenter)
	add("storemap-0-0", 2, true, 1, 6, 6, []int{2}, []string{"kvo:0"})
	add("storemap-7-4", 5, true, 9, 20, -1, []int{1}, []string{"kvo:0", "empty"})
	for mask := 1; mask < 7; mask++ {
		add("storemap-0-0", 2, true, 1, 6, 6, []int{2}, []string{fmt.Sprintf("kvo:%d", mask)})
		if mask == 2 || ctx.Thorough() { // quick: only the middle snapshot present, one worker
			add("storemap-0-0", 2, true, 1, 6, 6, []int{1}, []string{fmt.Sprintf("kv:%d", mask)})
		}
		if ctx.Thorough() {
			add("storemap-0-0", 2, true, 1, 6, 6, []int{2}, []string{fmt.Sprintf("kv:%d", mask)})
		}
	}
	// every store starts at or above the hand-off (the store stages only have NoOp units)
	add("storemap-3-1", 2, true, 1, 2, -1, w12, []string{"empty"})
	add("storemap-3-1", 2, true, 1, 3, -1, w12, []string{"empty"})
	add("storemap-3-1", 2, true, 1, 6, 2, w12, []string{"empty"})
	if spec := ctx.Args["case"]; spec != "" {
		var c Case
		fmt.Sscan(spec, &c.Prog, &c.Seg, &c.Prod, &c.Start, &c.Stop, &c.Final, &c.Workers, &c.Cache)
		c.Cap = capDefault
		_, c.PartialWins = ctx.Args["partial-wins"]
		if _, c.LateLoader = ctx.Args["late-loader"]; c.LateLoader {
			c.PartialWins = true
		}
		cases = []Case{c}
	}
	// every cache state of a C07 universe (files of a complete run + partials of jobs run alone)
	type sweep struct {
		prog             string
		seg, start, stop uint64
		final            int64
	}
	// samestage: two stores in one stage - the only shape in which a stage is left to merge while one of its stores
	// already has the full snapshot, i.e. in which the squasher's partial-vs-full load race is actually run (both outcomes)
	sweeps := []sweep{{"storemap-0-0", 5, 6, 12, 10}, {"samestage-1-7-3", 4, 9, 11, -1}}
	if ctx.Thorough() {
		sweeps = append(sweeps, sweep{"twostages-0-0-0", 5, 2, 6, 5}, sweep{"index", 4, 5, 9, 8}, sweep{"samestage-0-3-0", 4, 9, 11, -1})
	}
	var small []Case
	if ctx.Args["case"] != "" || ctx.Args["only"] != "" {
		sweeps = nil
	}
	for si, sw := range sweeps {
		prod := !strings.HasPrefix(sw.prog, "samestage")
		names, _, err := c07.Universe(c07.Shape{Prog: sw.prog, Seg: sw.seg, Prod: prod, Start: sw.start, Stop: sw.stop, Final: sw.final})
		if err != nil {
			ctx.Violation(core.Failf("harness:universe", "%v", err), sw.prog, 0)
			continue
		}
		for mask := uint64(0); mask < 1<<uint(len(names)); mask++ {
			small = append(small, Case{Prog: sw.prog, Seg: sw.seg, Prod: prod, Start: sw.start, Stop: sw.stop, Final: sw.final, Workers: 2, Cache: fmt.Sprintf("c07mask:%d", mask), Cap: capDefault, extra: si > 1})
			if ctx.Thorough() || si == 1 {
				small = append(small, Case{Prog: sw.prog, Seg: sw.seg, Prod: prod, Start: sw.start, Stop: sw.stop, Final: sw.final, Workers: 2, Cache: fmt.Sprintf("c07mask:%d", mask), Cap: capDefault, extra: si != 1, PartialWins: true})
				// third outcome: the partial wins and the losing full-snapshot load completes during a later merge
				if _, no := ctx.Args["no-late"]; !no {
					small = append(small, Case{Prog: sw.prog, Seg: sw.seg, Prod: prod, Start: sw.start, Stop: sw.stop, Final: sw.final, Workers: 2, Cache: fmt.Sprintf("c07mask:%d", mask), Cap: capDefault, extra: si != 1, PartialWins: true, LateLoader: true})
				}
			}
		}
	}
	// the late-loader outcome needs two consecutive merges of one store, the first with both its partial and its full
	// snapshot in the cache: samestage-0-3-0 (the two stores share whole segments). Quick: every cache state of its C07
	// universe in which both files of the first store's first segment are present, late-loader mode only (the thorough
	// tier sweeps the whole universe in the three modes).
	if ctx.Args["case"] == "" && ctx.Args["only"] == "" {
		sh := c07.Shape{Prog: "samestage-0-3-0", Seg: 4, Prod: false, Start: 9, Stop: 11, Final: -1}
		names, _, err := c07.Universe(sh)
		if err != nil {
			ctx.Violation(core.Failf("harness:universe", "%v", err), sh.Prog, 0)
		}
		var need uint64
		for i, n := range names {
			if strings.Contains(n, "/states/0000000004-0000000000.") {
				need |= 1 << uint(i)
			}
		}
		for mask := uint64(0); need != 0 && mask < 1<<uint(len(names)); mask++ {
			if mask&need != need {
				continue
			}
			small = append(small, Case{Prog: sh.Prog, Seg: sh.Seg, Prod: false, Start: sh.Start, Stop: sh.Stop, Final: sh.Final, Workers: 2, Cache: fmt.Sprintf("c07mask:%d", mask), Cap: capDefault, PartialWins: true, LateLoader: true})
		}
	}
	deadline := time.Now().Add(budget)
	states, trans, terms, replays, realJobs, hits, maxDepth := 0, 0, 0, 0, 0, 0, 0
	var sample []string
	perCfg := map[string]string{}
	allExhaustive := true
	nontrivial := 0
	var amu sync.Mutex
	account := func(c Case, o outcome, detail bool) {
		amu.Lock()
		defer amu.Unlock()
		states += o.res.States
		trans += o.res.Transitions
		terms += o.res.Terminals
		replays += o.res.Replays
		realJobs += o.res.RealJobRuns
		hits += o.res.MemoHits
		if o.res.MaxDepth > maxDepth {
			maxDepth = o.res.MaxDepth
			sample = o.res.SamplePath
		}
		if !o.res.Exhaustive {
			allExhaustive = false
		}
		if o.res.States > 10 {
			nontrivial++
		}
		if detail {
			perCfg[c.String()] = fmt.Sprintf("states=%d transitions=%d terminals=%d outcomes=%d max_depth=%d exhaustive=%v", o.res.States, o.res.Transitions, o.res.Terminals, len(o.res.Outcomes), o.res.MaxDepth, o.res.Exhaustive)
		}
		if o.fail != nil {
			cc := c
			cc.Path = o.res.Path
			ctx.Violation(o.fail, cc, int64(len(o.res.Path)))
		}
	}
	perConfigCap := 15 * time.Minute
	runCases := func(extra bool) {
		for _, c := range cases {
			if c.extra != extra {
				continue
			}
			remaining := time.Until(deadline)
			if remaining < 5*time.Second {
				allExhaustive = false
				perCfg[c.String()] = "not run (budget)"
				continue
			}
			if remaining > perConfigCap {
				remaining = perConfigCap
			}
			account(c, explore(c, 0, remaining, 0), true)
		}
	}
	// the cache-state sweeps are many small searches: 8 at a time, 2 workers each
	sweepStates := map[string]int{}
	runSweeps := func(extra bool) {
		sem := make(chan struct{}, 8)
		var wg sync.WaitGroup
		for _, c := range small {
			if c.extra != extra {
				continue
			}
			if time.Until(deadline) < 5*time.Second {
				allExhaustive = false
				amu.Lock()
				perCfg[fmt.Sprintf("%s seg=%d [%d,%d): sweep", c.Prog, c.Seg, c.Start, c.Stop)] = "cut short (budget)"
				amu.Unlock()
				break
			}
			wg.Add(1)
			sem <- struct{}{}
			go func(c Case) {
				defer wg.Done()
				defer func() { <-sem }()
				o := explore(c, 0, time.Until(deadline), 2)
				account(c, o, false)
				amu.Lock()
				sweepStates[fmt.Sprintf("%s seg=%d [%d,%d)%s: all cache states of the C07 universe", c.Prog, c.Seg, c.Start, c.Stop, map[bool]string{true: " partial-wins", false: ""}[c.PartialWins]+map[bool]string{true: " late-loader", false: ""}[c.LateLoader])] += o.res.States
				amu.Unlock()
			}(c)
		}
		wg.Wait()
	}
	// everything the quick tier explores comes first, then the thorough tier's additions
	if _, so := ctx.Args["sweeps-only"]; so {
		cases = nil
	}
	t0 := time.Now()
	runCases(false)
	ctx.Cov["wall_s_grid_configurations"] = time.Since(t0).Seconds()
	runSweeps(false)
	if ctx.Thorough() {
		runCases(true)
		runSweeps(true)
	}
	for k, v := range sweepStates {
		perCfg[k] = fmt.Sprintf("states=%d (summed over the sweep)", v)
	}
	cases = append(cases, small...)
	ctx.Sample(map[string]any{"longest_path_explored": sample})
	ctx.Cov["states"] = states
	ctx.Cov["transitions"] = trans
	ctx.Cov["traces_validated_against_impl"] = trans
	ctx.Cov["terminal_states"] = terms
	ctx.Cov["replays"] = replays
	ctx.Cov["real_tier2_job_runs"] = realJobs
	ctx.Cov["memoised_job_replays"] = hits
	ctx.Cov["max_depth"] = maxDepth
	ctx.Cov["squasher_load_races_decided"] = atomic.LoadInt64(&schedx.RacesDecided)
	ctx.Cov["late_full_snapshot_loads_completed_during_a_later_merge"] = atomic.LoadInt64(&schedx.LateReleased)
	ctx.Cov["late_loads_not_placed"] = atomic.LoadInt64(&schedx.LateUnsettled)
	ctx.Cov["configurations"] = len(cases)
	ctx.Cov["per_configuration"] = perCfg
	ctx.Cov["evaluations"] = len(cases)
	ctx.Cov["distinct_nontrivial"] = nontrivial
	ctx.Cov["exhaustive"] = allExhaustive
	ctx.Cov["rule"] = "explicit-state BFS over the real Scheduler.Update: a state is the real Scheduler+Stages+WorkerPool+Walker plus the multiset of pending messages, pending job bodies and the cache files; an event delivers one pending message or runs one dispatched job's body (the real tier2 processRange, memoised on (unit, digest of all files)); command bodies other than jobs run at issue time, asynchronous squasher writes are drained after every event; successors are produced by replaying the event path on a fresh processor and directory; states are deduplicated on a canonical key (Stages/scheduler/pool/walker fingerprints from hooks, pending multiset, file names, streamed count). Every state: no panic, in-flight jobs <= workers, merges per stage strictly increasing and once, no deadlock; terminal states: no error, streamed outputs == reference for [start,min(hand-off,stop)), FinalStoreMap(hand-off) == sequential reference; after the search: a terminal state is reachable from every state and the terminal outcome is unique. Non-trivial configurations: > 10 states."
	ctx.Assume = []string{
		"loop.EventLoop.Run itself (goroutines, channel capacities) is bypassed; whole-system runs exercise it",
		"asynchronous squasher writes land before the next event (the late-write deviation is not explored in this tier)",
		"walker poll delays are zeroed (a delay is 'delivered later')",
		"worker ramp-up ended at construction (hook)",
	}
	return ctx.Finish(core.JSONRecheck(ctx.Prop, Eval))
}
