// Package c15: block-index filtering never changes results.
// E1 half: the bitmap evaluator and the per-block keys evaluator agree on every accepted expression and every
// key-to-block assignment, also through index.File save/load and BlockIndex.Skip / SkipFromKeys, and evaluating
// never mutates the shared index bitmaps. The whole-system half (index file absent / being built / present) is run
// by the sysrun driver (see Run).
package c15

import (
	"context"
	"fmt"
	"os"
	"sort"
	"strings"
	"sync/atomic"
	"time"

	"github.com/RoaringBitmap/roaring/roaring64"
	"github.com/streamingfast/dstore"
	"go.uber.org/zap"
	"google.golang.org/protobuf/proto"

	"github.com/streamingfast/substreams/block"
	pbindex "github.com/streamingfast/substreams/pb/sf/substreams/index/v1"
	"github.com/streamingfast/substreams/sqe"
	"github.com/streamingfast/substreams/storage/index"

	"verifharness/core"
	"verifharness/progs"
	"verifharness/sysrun"
	"verifharness/sysx"
)

type Case struct {
	Prog string `json:"prog,omitempty"` // whole-system half: "" = index (one index module), "index2" = two index modules built by the same job
	// whole-system half, system "failing-write": the n-th object write of the first request fails once after consuming its
	// body (an index file written empty by a bad retry is a valid index that matches nothing); the same request is then
	// served again on the cache the first one left
	FailWrite int `json:"fail_write,omitempty"`
	// whole-system half: the final block lies inside the range, so that a linear part follows the back-filled one and
	// reads the stores the segment jobs built
	FinalInside bool     `json:"final_inside,omitempty"`
	System      string   `json:"system,omitempty"` // whole-system half: which cache files of a previous run are kept (none | index | all | all-but-index)
	Seg         uint64   `json:"seg,omitempty"`
	Start       uint64   `json:"start,omitempty"`
	Stop        uint64   `json:"stop,omitempty"`
	Expr        string   `json:"expr"`
	Assign      []int    `json:"assign"` // per block (100,101,102): bitmask over keys
	Keys        []string `json:"keys"`
	File        bool     `json:"file,omitempty"` // also through index.File save+load
}

var blocks = []uint64{100, 101, 102}

var dirSeq int64

// evalSystem: the filtered map and the filtered store of the index program give the same stream whether the index
// files are absent and built in the same request, present, or present while everything else is missing; and equal to
// the reference interpreter, which evaluates the filter on each block's own keys.
func evalSystem(cs Case) (*core.Fail, bool) {
	p := progs.Index()
	if cs.Prog == "index2" {
		p = progs.Index2()
	}
	base := sysrun.Scratch("c15base")
	defer os.RemoveAll(base)
	mk := func(dir string) sysrun.Config {
		final := cs.Stop + 2
		if cs.FinalInside {
			final = (cs.Start + cs.Stop) / 2
		}
		return sysrun.Config{Modules: p.Modules, Output: p.Output, Prod: true, Seg: cs.Seg, Start: int64(cs.Start), Stop: cs.Stop, Final: final, Dir: dir, Source: sysrun.LinearChain{Head: cs.Stop + 3, Final: final}, Timeout: 15 * time.Second}
	}
	cfg0 := mk(base)
	cfg0.FailWrite = cs.FailWrite
	r0 := sysrun.Run(cfg0)
	desc := fmt.Sprintf("%s program prod [%d,%d) seg=%d keep=%s final-inside=%v", p.Name, cs.Start, cs.Stop, cs.Seg, cs.System, cs.FinalInside)
	if cs.FailWrite > 0 {
		desc += fmt.Sprintf(" (object write #%d of the first request fails once after its body was consumed)", cs.FailWrite)
	}
	if r0.Err != nil {
		return core.Failf("system:clean-run-failed", "%s: %v", desc, r0.Err), false
	}
	ref, _, err := sysx.Reference(p.Modules, p.Output, cs.Stop)
	if err != nil {
		return core.Failf("harness:reference", "%v", err), false
	}
	if d := sysx.Diff(sysx.NonEmpty(r0.Data), sysx.Restrict(ref, cs.Start, cs.Stop)); d != "" {
		return core.Failf("system:index-built-in-request-differs-from-per-block-evaluation", "%s: %s", desc, d), true
	}
	keep := map[string]bool{}
	nIndex := 0
	// the index modules of the program, by the directory (module hash) of their files
	idxDirs := map[string]bool{}
	for _, f := range sysrun.ListFiles(base) {
		if strings.Contains(f, "/index/") {
			idxDirs[strings.SplitN(f, "/index/", 2)[0]] = true
		}
	}
	var dirs []string
	for d := range idxDirs {
		dirs = append(dirs, d)
	}
	sort.Strings(dirs)
	for _, f := range sysrun.ListFiles(base) {
		isIdx := strings.Contains(f, "/index/")
		if isIdx {
			nIndex++
		}
		switch cs.System {
		case "failing-write":
			keep[f] = true
		case "index-first": // only the index files of one of several index modules
			keep[f] = isIdx && len(dirs) > 0 && strings.HasPrefix(f, dirs[0]+"/")
		case "index-second":
			keep[f] = isIdx && len(dirs) > 1 && strings.HasPrefix(f, dirs[1]+"/")
		case "index":
			keep[f] = isIdx
		case "all":
			keep[f] = true
		case "all-but-index":
			keep[f] = !isIdx
		case "all-but-states": // index and cached outputs present, every snapshot and partial gone
			keep[f] = !strings.Contains(f, "/states/")
		}
	}
	if cs.FailWrite > 0 && !r0.WriteFaultHit {
		return nil, false // the request does not write that many objects
	}
	if nIndex == 0 && cs.FinalInside {
		return nil, false // the final block lies below the first segment boundary: nothing is back-filled, no index file
	}
	if nIndex == 0 {
		return core.Failf("system:no-index-file-written", "%s: the clean run left no index file", desc), false
	}
	dir := sysrun.Scratch("c15sys")
	defer os.RemoveAll(dir)
	sysrun.CopyTree(base, dir, keep)
	r := sysrun.Run(mk(dir))
	if r.Err != nil {
		return core.Failf("system:request-failed", "%s: %v", desc, r.Err), true
	}
	if d := sysx.Diff(sysx.NonEmpty(r.Data), sysx.NonEmpty(r0.Data)); d != "" {
		return core.Failf("system:stream-depends-on-index-files", "%s: %s", desc, d), true
	}
	return nil, true
}

func Eval(cs Case) (*core.Fail, bool) {
	if cs.System != "" {
		return evalSystem(cs)
	}
	expr, err := sqe.Parse(context.Background(), cs.Expr)
	if err != nil {
		return nil, false // rejected expressions are outside the statement
	}
	// index: key -> bitmap of blocks
	indices := map[string]*roaring64.Bitmap{}
	for bi, mask := range cs.Assign {
		for ki, k := range cs.Keys {
			if mask&(1<<ki) != 0 {
				if indices[k] == nil {
					indices[k] = roaring64.New()
				}
				indices[k].Add(blocks[bi])
			}
		}
	}
	if cs.File {
		base := os.Getenv("VERIF_SHM")
		if base == "" {
			base = "/dev/shm"
		}
		dir := fmt.Sprintf("%s/verifx.c15.%d.%d", base, os.Getpid(), atomic.AddInt64(&dirSeq, 1))
		os.MkdirAll(dir, 0o755)
		defer os.RemoveAll(dir)
		ds, err := dstore.NewStore("file://"+dir, "zst", "zstd", true)
		if err != nil {
			panic(err)
		}
		f, err := index.NewFile(ds, "hash", "idx", zap.NewNop(), block.NewRange(100, 110))
		if err != nil {
			return core.Failf("file:new", "%v", err), false
		}
		f.Set(indices)
		if err := f.Save(context.Background()); err != nil {
			return core.Failf("file:save", "%q: %v", cs.Expr, err), false
		}
		g, _ := index.NewFile(ds, "hash", "idx", zap.NewNop(), block.NewRange(100, 110))
		if err := g.Load(context.Background()); err != nil {
			return core.Failf("file:load", "%q: %v", cs.Expr, err), false
		}
		indices = g.Indices
	}
	snapshot := func() string {
		var ks []string
		for k, b := range indices {
			ks = append(ks, fmt.Sprintf("%s=%v", k, b.ToArray()))
		}
		sort.Strings(ks)
		return strings.Join(ks, " ")
	}
	before := snapshot()
	bm := sqe.RoaringBitmapsApply(expr, indices)
	bi := index.NewBlockIndex(expr, "idx", bm)
	desc := func() string {
		return fmt.Sprintf("expr %q keys %q per-block key sets %v (index: %s)", cs.Expr, cs.Keys, cs.Assign, before)
	}
	for b, mask := range cs.Assign {
		var keys []string
		for ki, k := range cs.Keys {
			if mask&(1<<ki) != 0 {
				keys = append(keys, k)
			}
		}
		pk := &pbindex.Keys{Keys: keys}
		want := sqe.KeysApply(expr, sqe.NewFromIndexKeys(pk))
		if got := bm.Contains(blocks[b]); got != want {
			return core.Failf("evaluators-disagree", "%s: block %d: index says selected=%v, the block's own keys say %v", desc(), blocks[b], got, want), true
		}
		raw, _ := proto.Marshal(pk)
		noIdx := index.NewBlockIndex(expr, "idx", nil)
		if s1, s2 := bi.Skip(blocks[b]), noIdx.SkipFromKeys(raw); s1 != s2 {
			return core.Failf("skip-disagrees", "%s: block %d: Skip (precomputed)=%v SkipFromKeys=%v", desc(), blocks[b], s1, s2), true
		}
	}
	// blocks of the segment that carry no key at all are never selected by a (negation-free) filter
	if bm.Contains(109) {
		return core.Failf("selects-block-without-keys", "%s: block 109 has no key but is selected", desc()), true
	}
	// evaluating again gives the same answer and never mutates the shared index bitmaps
	bm2 := sqe.RoaringBitmapsApply(expr, indices)
	if !bm.Equals(bm2) {
		return core.Failf("second-evaluation-differs", "%s: first %v second %v", desc(), bm.ToArray(), bm2.ToArray()), true
	}
	if after := snapshot(); after != before {
		return core.Failf("evaluation-mutates-index", "%s: index after evaluation: %s", desc(), after), true
	}
	// non-trivial: >= 2 distinct keys in the expression and two blocks on which the answer differs
	nt := len(sqe.ExtractAllKeys(expr)) >= 2 && bm.GetCardinality() > 0 && bm.GetCardinality() < uint64(len(blocks))
	return nil, nt
}

// genExprs: every expression string with up to maxLeaves leaves over atoms, operators {" && ", " || ", " "} and parentheses.
func genExprs(atoms []string, maxLeaves int) []string {
	memo := map[int][]string{}
	var gen func(n int) []string
	gen = func(n int) []string { // expressions with exactly n leaves, usable as a term only if parenthesised when n>1
		if v, ok := memo[n]; ok {
			return v
		}
		var out []string
		if n == 1 {
			out = append(out, atoms...)
		} else {
			// flat sequence of k>=2 terms whose leaf counts sum to n; a term is an atom or a parenthesised expression
			var rec func(remaining int, parts []string)
			terms := func(m int) []string {
				if m == 1 {
					return atoms
				}
				var ts []string
				for _, e := range gen(m) {
					ts = append(ts, "("+e+")")
				}
				return ts
			}
			rec = func(remaining int, parts []string) {
				if remaining == 0 {
					if len(parts) >= 2 {
						// choose operators
						nops := len(parts) - 1
						for m := 0; m < pow(3, nops); m++ {
							s := parts[0]
							x := m
							for i := 0; i < nops; i++ {
								s += []string{" && ", " || ", " "}[x%3] + parts[i+1]
								x /= 3
							}
							out = append(out, s)
						}
					}
					return
				}
				for m := 1; m <= remaining; m++ {
					if m == n {
						continue // a single term with all leaves would be (expr): generated as a term by the caller
					}
					for _, t := range terms(m) {
						rec(remaining-m, append(append([]string{}, parts...), t))
					}
				}
			}
			rec(n, nil)
		}
		memo[n] = out
		return out
	}
	var all []string
	for n := 1; n <= maxLeaves; n++ {
		all = append(all, gen(n)...)
	}
	return all
}

func pow(a, b int) int {
	r := 1
	for i := 0; i < b; i++ {
		r *= a
	}
	return r
}

func Run(ctx *core.Ctx) int {
	ctx.Level = "exploration"
	if ctx.Replay != "" {
		return core.RunReplay(ctx, Eval)
	}
	maxLeaves := 3
	if ctx.Thorough() {
		maxLeaves = 4
	}
	structural := genExprs([]string{"a", "b", "c"}, maxLeaves)
	quoted := genExprs([]string{"a", "'a'", "\"b\"", "'a b'", "c"}, 2)
	quoted = append(quoted, "('a b')", "( a )", "((a) 'a b')", "a  &&  'a b'")
	rejected := []string{"-a", "a -b", "''", "\"\"", "a &&", "|| a", "(", "a)", "()", "a || || b", "'a", "a && (b", "!a", "a||b", "a&&b"}
	accepted := 0
	for _, e := range append(append([]string{}, structural...), quoted...) {
		if _, err := sqe.Parse(context.Background(), e); err == nil {
			accepted++
		}
	}
	st := core.ParallelEnum(ctx, func(emit func(Case) bool) {
		k3 := []string{"a", "b", "c"}
		for _, e := range structural {
			for m := 0; m < 512; m++ {
				if !emit(Case{Expr: e, Keys: k3, Assign: []int{m & 7, (m >> 3) & 7, (m >> 6) & 7}}) {
					return
				}
			}
		}
		k4 := []string{"a", "b", "c", "a b"}
		for _, e := range append(quoted, rejected...) {
			for m := 0; m < 4096; m++ {
				if !emit(Case{Expr: e, Keys: k4, Assign: []int{m & 15, (m >> 4) & 15, (m >> 8) & 15}}) {
					return
				}
			}
		}
		// whole-system half
		for _, seg := range []uint64{3, 4, 6} {
			for _, se := range [][2]uint64{{1, 2*seg + 1}, {seg + 1, 3 * seg}, {0, seg}} {
				for _, prog := range []string{"", "index2"} {
					for n := 1; n <= 14; n++ {
						if !emit(Case{Prog: prog, System: "failing-write", FailWrite: n, Seg: seg, Start: se[0], Stop: se[1]}) {
							return
						}
					}
					modes := []string{"none", "index", "all", "all-but-index", "all-but-states"}
					if prog == "index2" {
						modes = append(modes, "index-first", "index-second")
					}
					for _, keepMode := range []string{"all-but-states", "index", "none"} {
						if !emit(Case{Prog: prog, System: keepMode, Seg: seg, Start: se[0], Stop: se[1], FinalInside: true}) {
							return
						}
					}
					for _, keepMode := range modes {
						if !emit(Case{Prog: prog, System: keepMode, Seg: seg, Start: se[0], Stop: se[1]}) {
							return
						}
					}
				}
			}
		}
		// keys absent from the index, and through index.File save/load
		for i, e := range structural {
			if i%7 != 0 && len(structural) > 400 {
				continue
			}
			for _, m := range []int{0, 1, 0o123, 0o777, 0o421, 0o70} {
				if !emit(Case{Expr: e, Keys: []string{"a", "zz", "c"}, Assign: []int{m & 7, (m >> 3) & 7, (m >> 6) & 7}, File: true}) {
					return
				}
			}
		}
	}, Eval)
	ctx.Sample(Case{Expr: structural[len(structural)/2], Keys: []string{"a", "b", "c"}, Assign: []int{1, 6, 3}})
	ctx.Sample(Case{Expr: quoted[len(quoted)/3], Keys: []string{"a", "b", "c", "a b"}, Assign: []int{9, 2, 4}})
	ctx.Cov["evaluations"] = st.Evaluations
	ctx.Cov["distinct_nontrivial"] = st.NonTrivial
	ctx.Cov["expressions"] = len(structural) + len(quoted) + len(rejected)
	ctx.Cov["expressions_accepted_by_parser"] = accepted
	ctx.Cov["exhaustive"] = true
	ctx.Cov["rule"] = fmt.Sprintf("every expression string with <=%d leaves over keys {a,b,c}, operators ' && ', ' || ', juxtaposition and parentheses at any nesting (%d strings) x every assignment of key subsets to the 3 blocks of a segment (8^3); every <=2-leaf expression over bare/single-/double-quoted keys and a key with a space x 16^3 assignments; 15 rejected shapes (judged only if the parser accepts them); a slice with a key absent from the index and through index.File save+load on a local zstd dstore. Oracle: RoaringBitmapsApply(expr,index).Contains(b) == KeysApply(expr, keys(b)); BlockIndex.Skip == SkipFromKeys; a block without keys is never selected; a second evaluation gives the same bitmap and leaves the index bitmaps untouched. Non-trivial: >=2 distinct keys and the filter separates the blocks; every whole-system case.", maxLeaves, len(structural))
	ctx.Assume = []string{"whole-system half: the index program (index module, map filtered by 'even && three', store filtered by 'three || mod5-1') and the index2 program (two index modules built by the same job that share a key name on different blocks, maps and a store filtered on it) served in production mode on {empty cache: index built in the request, only the index files of a previous run, all files, all files but the index, only the index files of one of two index modules}; streams compared with each other and with the reference interpreter evaluating the filter on each block's own keys"}
	defer sysrun.CleanupAll()
	return ctx.Finish(core.JSONRecheck(ctx.Prop, Eval))
}
