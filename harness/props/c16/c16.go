// Package c16: worker failures never corrupt the stream or truncate it silently.
package c16

import (
	"context"
	"fmt"
	"io"
	"os"
	"sort"
	"strings"
	"sync"
	"sync/atomic"
	"time"

	"connectrpc.com/connect"
	"go.uber.org/zap"
	"google.golang.org/grpc"
	"google.golang.org/grpc/codes"
	"google.golang.org/grpc/metadata"
	"google.golang.org/grpc/status"

	"github.com/streamingfast/substreams"
	"github.com/streamingfast/substreams/client"
	"github.com/streamingfast/substreams/orchestrator/loop"
	"github.com/streamingfast/substreams/orchestrator/response"
	"github.com/streamingfast/substreams/orchestrator/stage"
	"github.com/streamingfast/substreams/orchestrator/work"
	pbssinternal "github.com/streamingfast/substreams/pb/sf/substreams/intern/v2"
	"github.com/streamingfast/substreams/reqctx"
	"github.com/streamingfast/substreams/service"

	"verifharness/core"
	"verifharness/progs"
	"verifharness/props/c04"
	"verifharness/sysrun"
	"verifharness/sysx"
)

// Fault kinds.
const (
	PRE      = "pre"                  // the call is refused (Unavailable) before anything runs
	OVERLOAD = "overload"             // the service's own 'currently overloaded' answer
	MID      = "mid"                  // the stream drops after the first update; the server side is cancelled
	POST     = "post"                 // the job wrote all its files, the client sees a dropped stream instead of EOF
	DRAIN    = "drain"                // the worker's own context is cancelled while the job runs (the instance is draining) but its stream still reaches tier1: the job's modules see a cancelled context, the client receives the status the worker computes
	LASTBLK  = "cancel-at-last-block" // the worker's context is cancelled right after the job's last block: what is flushed with a background context (cached outputs) reaches storage, what is flushed with the request's context (the store partial) does not; the client receives the worker's status
	MIDC     = "mid-canceled"         // like mid, but the client receives the status the worker itself answers when it is cancelled (tier2's real error mapping: Canceled) while the tier1 request is alive
)

type Fault struct {
	Job     int    `json:"job"`     // index of the job in dispatch order of the fault-free run (its (segment,stage) is resolved at run time)
	Attempt int    `json:"attempt"` // 1-based attempt of that job
	Kind    string `json:"kind"`
}

type Case struct {
	Kind   string    `json:"kind"` // transient | deterministic | source-end
	Prog   string    `json:"prog"`
	Prod   bool      `json:"prod"`
	Faults []Fault   `json:"faults,omitempty"`
	FailIn string    `json:"fail_in,omitempty"` // module failing deterministically
	FailAt uint64    `json:"fail_at,omitempty"`
	Src    *c04.Case `json:"source_end,omitempty"` // kind "source-end"
}

const (
	seg   = 3
	start = 4
	stop  = 14
	final = 9
)

func program(name string) *progs.Prog {
	switch name {
	case "twostages":
		return progs.TwoStages(0, 0, 0)
	case "chain":
		return progs.Chain(0)
	case "samestage":
		return progs.SameStage(0, 0, 0)
	case "storemap-ctx": // every module makes a host call that fails, with a non-wrapping error, once the context is cancelled
		return progs.CtxSensitive(progs.StoreMap(0, 0))
	}
	return progs.StoreMap(0, 0)
}

// ---- fake transport: the real RemoteWorker talks to this client; the server side is the real tier2 processRange.

type faultPlan struct {
	mu       sync.Mutex
	units    []stage.Unit // units of the fault-free run in dispatch order (job index -> unit)
	attempts map[stage.Unit]int
	faults   []Fault
	hit      int
}

func (p *faultPlan) next(u stage.Unit) string {
	p.mu.Lock()
	defer p.mu.Unlock()
	p.attempts[u]++
	for _, f := range p.faults {
		if f.Job < len(p.units) && p.units[f.Job] == u && f.Attempt == p.attempts[u] {
			p.hit++
			return f.Kind
		}
	}
	return ""
}

type fakeClient struct {
	cfg  *sysrun.Config
	plan *faultPlan
	ctx  context.Context // carries the tier2 request parameters
}

type fakeStream struct {
	ctx  context.Context
	ch   chan *pbssinternal.ProcessRangeResponse
	done chan error
}

func (s *fakeStream) Recv() (*pbssinternal.ProcessRangeResponse, error) {
	select {
	case m, ok := <-s.ch:
		if ok {
			return m, nil
		}
		return nil, <-s.done
	case <-s.ctx.Done():
		return nil, status.FromContextError(s.ctx.Err()).Err()
	}
}
func (s *fakeStream) Header() (metadata.MD, error) { return metadata.MD{}, nil }
func (s *fakeStream) Trailer() metadata.MD         { return metadata.MD{} }
func (s *fakeStream) CloseSend() error             { return nil }
func (s *fakeStream) Context() context.Context     { return s.ctx }
func (s *fakeStream) SendMsg(m any) error          { return nil }
func (s *fakeStream) RecvMsg(m any) error          { return io.EOF }

func (c *fakeClient) ProcessRange(ctx context.Context, req *pbssinternal.ProcessRangeRequest, _ ...grpc.CallOption) (grpc.ServerStreamingClient[pbssinternal.ProcessRangeResponse], error) {
	u := stage.Unit{Segment: int(req.SegmentNumber), Stage: int(req.Stage)}
	kind := c.plan.next(u)
	if kind == PRE {
		return nil, status.Error(codes.Unavailable, "connection refused")
	}
	st := &fakeStream{ctx: ctx, ch: make(chan *pbssinternal.ProcessRangeResponse, 64), done: make(chan error, 1)}
	if kind == OVERLOAD {
		// what grpc-go hands the client when the handler returns connect.NewError(CodeUnavailable, "service currently overloaded")
		close(st.ch)
		st.done <- status.Error(codes.Unknown, connect.NewError(connect.CodeUnavailable, fmt.Errorf("service currently overloaded")).Error())
		return st, nil
	}
	srvCtx, cancel := context.WithCancel(context.Background())
	srvCtx = reqctx.WithLogger(srvCtx, zap.NewNop())
	go func() {
		defer cancel()
		sent := 0
		resp := func(r substreams.ResponseFromAnyTier) error {
			if m, ok := r.(*pbssinternal.ProcessRangeResponse); ok {
				sent++
				if (kind == MID || kind == MIDC) && sent >= 1 {
					cancel() // the connection is gone: the server's context is cancelled, nothing more reaches the client
					if kind == MIDC {
						return status.Error(codes.Canceled, "context canceled") // what a send on a cancelled stream answers
					}
					return status.Error(codes.Unavailable, "transport is closing")
				}
				select {
				case st.ch <- m:
				default:
				}
			}
			return nil
		}
		jobCfg := c.cfg
		if kind == LASTBLK {
			cp := *c.cfg
			last := (req.SegmentNumber+1)*req.SegmentSize - 1
			cp.Tier2AfterBlock = func(_ *pbssinternal.ProcessRangeRequest, s sysrun.Step) {
				if s.Num == last {
					cancel()
				}
			}
			jobCfg = &cp
		}
		if kind == DRAIN {
			cp := *c.cfg
			first := true
			cp.Tier2AfterBlock = func(_ *pbssinternal.ProcessRangeRequest, _ sysrun.Step) {
				if first {
					first = false
					cancel() // after the job's first block: its next module call finds the context cancelled
				}
			}
			jobCfg = &cp
		}
		err := sysrun.RunTier2(srvCtx, jobCfg, req, resp)
		grpcErr := service.VerifToGRPCError(srvCtx, err)
		close(st.ch)
		switch {
		case kind == MID:
			st.done <- status.Error(codes.Unavailable, "stream dropped: transport is closing")
		case (kind == DRAIN || kind == LASTBLK) && grpcErr != nil:
			st.done <- grpcErr
		case kind == MIDC:
			if grpcErr == nil {
				grpcErr = status.Error(codes.Canceled, "context canceled")
			}
			st.done <- grpcErr
		case kind == POST:
			st.done <- status.Error(codes.Unavailable, "stream dropped before completion was reported")
		case grpcErr != nil:
			st.done <- grpcErr
		default:
			st.done <- io.EOF
		}
	}()
	return st, nil
}

type paramWorker struct {
	inner work.Worker
	cfg   *sysrun.Config
}

func (w *paramWorker) ID() string { return w.inner.ID() }
func (w *paramWorker) Work(ctx context.Context, unit stage.Unit, startBlock uint64, moduleNames []string, upstream *response.Stream) loop.Cmd {
	ctx = reqctx.WithTier2RequestParameters(ctx, sysrun.Tier2Params(w.cfg))
	inner := w.inner.Work(ctx, unit, startBlock, moduleNames, upstream)
	return func() loop.Msg {
		msg := inner()
		// the message carries the inner worker; the pool knows the wrapper
		if ok, is := msg.(work.MsgJobSucceeded); is {
			ok.Worker = w
			return ok
		}
		return msg
	}
}

var runs int64

func run(p *progs.Prog, prod bool, plan *faultPlan, dir string) *sysrun.Result {
	atomic.AddInt64(&runs, 1)
	cfg := sysrun.Config{Modules: p.Modules, Output: p.Output, Prod: prod, Seg: seg, Start: start, Stop: stop, Final: final, Dir: dir, Source: sysrun.LinearChain{Head: stop + 3, Final: final}, Timeout: 20 * time.Second}
	cfgPtr := &cfg
	cfg.WorkerFactory = func(base work.WorkerFactory) work.WorkerFactory {
		return func(l *zap.Logger) work.Worker {
			factory := client.InternalClientFactory(func() (pbssinternal.SubstreamsClient, func() error, []grpc.CallOption, client.Headers, error) {
				return &fakeClient{cfg: cfgPtr, plan: plan}, func() error { return nil }, nil, nil, nil
			})
			return &paramWorker{inner: work.NewRemoteWorker(factory, zap.NewNop()), cfg: cfgPtr}
		}
	}
	return sysrun.Run(cfg)
}

type baseline struct {
	rows  []sysx.Row
	units []stage.Unit
	err   error
}

var baseMu sync.Mutex
var baselines = map[string]*baseline{}

func faultFree(prog string, prod bool) *baseline {
	key := fmt.Sprintf("%s/%v", prog, prod)
	baseMu.Lock()
	defer baseMu.Unlock()
	if b, ok := baselines[key]; ok {
		return b
	}
	dir := sysrun.Scratch("c16base")
	defer os.RemoveAll(dir)
	plan := &faultPlan{attempts: map[stage.Unit]int{}}
	r := run(program(prog), prod, plan, dir)
	b := &baseline{rows: sysx.NonEmpty(r.Data), units: r.Jobs, err: r.Err}
	// jobs in first-attempt order
	seen := map[stage.Unit]bool{}
	var units []stage.Unit
	for u := range plan.attempts {
		if !seen[u] {
			seen[u] = true
			units = append(units, u)
		}
	}
	sort.Slice(units, func(i, j int) bool {
		if units[i].Segment != units[j].Segment {
			return units[i].Segment < units[j].Segment
		}
		return units[i].Stage < units[j].Stage
	})
	b.units = units
	baselines[key] = b
	return b
}

func Eval(c Case) (*core.Fail, bool) {
	dir := sysrun.Scratch("c16")
	defer os.RemoveAll(dir)
	mode := "dev"
	if c.Prod {
		mode = "prod"
	}
	switch c.Kind {
	case "transient":
		b := faultFree(c.Prog, c.Prod)
		if b.err != nil {
			return core.Failf("harness:fault-free-run-failed", "%s %s: %v", c.Prog, mode, b.err), false
		}
		plan := &faultPlan{attempts: map[stage.Unit]int{}, faults: c.Faults, units: b.units}
		r := run(program(c.Prog), c.Prod, plan, dir)
		desc := fmt.Sprintf("%s %s [%d,%d) seg=%d final=%d faults=%+v (jobs %v)", c.Prog, mode, start, stop, seg, final, c.Faults, b.units)
		if r.Err != nil {
			key := "transient-fault-fails-the-request"
			if sysx.IsHang(r.Err) {
				key = "hang-after-transient-fault"
			}
			return core.Failf(key, "%s: %v", desc, r.Err), plan.hit > 0
		}
		if d := sysx.Diff(sysx.NonEmpty(r.Data), b.rows); d != "" {
			return core.Failf("stream-differs-after-transient-faults", "%s: %s", desc, d), plan.hit > 0
		}
		return nil, plan.hit > 0
	case "source-end":
		// the worker's own block source ends cleanly before the job's last block (C04's deviation, judged here for the
		// jobs): the request fails or is served completely, and the cache stays usable
		f, nt := c04.Eval(*c.Src)
		if f != nil {
			f.Key = "worker-source-ended-early:" + f.Key
		}
		return f, nt
	case "deterministic":
		p := progs.WithFailAt(program(c.Prog), c.FailIn, c.FailAt)
		b := faultFree(c.Prog, c.Prod)
		plan := &faultPlan{attempts: map[stage.Unit]int{}}
		r := run(p, c.Prod, plan, dir)
		desc := fmt.Sprintf("%s %s [%d,%d) seg=%d final=%d: module %s fails at block %d", c.Prog, mode, start, stop, seg, final, c.FailIn, c.FailAt)
		if r.Err == nil {
			return core.Failf("deterministic-failure-not-reported", "%s: the request completed without error; delivered %s", desc, sysx.FmtRows(sysx.NonEmpty(r.Data))), true
		}
		if sysx.IsHang(r.Err) {
			return core.Failf("hang-after-deterministic-failure", "%s: %v", desc, r.Err), true
		}
		mapped := service.VerifToConnectError(context.Background(), r.Err)
		if connect.CodeOf(mapped) != connect.CodeInvalidArgument {
			return core.Failf("deterministic-failure-not-invalid-argument", "%s: the request ends with %v: %v", desc, connect.CodeOf(mapped), r.Err), true
		}
		if r.AfterError != 0 {
			return core.Failf("data-after-error", "%s", desc), true
		}
		got := sysx.NonEmpty(r.Data)
		for i, row := range got {
			if row.Num >= c.FailAt {
				return core.Failf("block-delivered-at-or-after-the-failing-block", "%s: block %d delivered", desc, row.Num), true
			}
			if i >= len(b.rows) || row != b.rows[i] {
				return core.Failf("delivered-blocks-are-not-a-prefix-of-the-fault-free-stream", "%s: message %d is %s", desc, i, row), true
			}
		}
		return nil, true
	}
	return core.Failf("harness:kind", "unknown kind %q", c.Kind), false
}

func Run(ctx *core.Ctx) int {
	ctx.Level = "fault_enumeration"
	ctx.Parallel = 64 // the cases mostly sleep in the retry back-off
	defer sysrun.CleanupAll()
	if ctx.Replay != "" {
		return core.RunReplay(ctx, Eval)
	}
	kinds := []string{PRE, OVERLOAD, MID, POST}
	maxFaults := 3                                                                       // the bound the property names; the retry loop counts attempts per job, so three on one job matter
	progsList := []string{"storemap", "twostages", "chain", "samestage", "storemap-ctx"} // chain: the last stage is fed from cached outputs, not from the block stream
	if ctx.Thorough() {
		maxFaults = 4
	}
	st := core.ParallelEnum(ctx, func(emit func(Case) bool) {
		for _, prog := range progsList {
			for _, prod := range []bool{true, false} {
				b := faultFree(prog, prod)
				nj := len(b.units)
				// every multiset of <= maxFaults faults over the (job, attempt) sites: a job's k-th attempt can only be
				// faulted if its attempts 1..k-1 are
				var rec func(from int, cur []Fault) bool
				rec = func(from int, cur []Fault) bool {
					if len(cur) > 0 {
						if !emit(Case{Kind: "transient", Prog: prog, Prod: prod, Faults: append([]Fault{}, cur...)}) {
							return false
						}
					}
					if len(cur) == maxFaults || ((prog == "samestage" || prog == "storemap-ctx") && len(cur) == maxFaults-1) {
						return true // the retry logic does not depend on the program: one fault less on the fourth program
					}
					for j := from; j < nj; j++ {
						att := 1
						for _, f := range cur {
							if f.Job == j {
								att++
							}
						}
						for _, k := range kinds {
							if !rec(j, append(cur, Fault{Job: j, Attempt: att, Kind: k})) {
								return false
							}
						}
						if (prog == "storemap" || prog == "twostages") && len(cur) < 2 {
							if !rec(j, append(cur, Fault{Job: j, Attempt: att, Kind: LASTBLK})) {
								return false
							}
						}
						if prog == "storemap-ctx" && len(cur) < 2 {
							if !rec(j, append(cur, Fault{Job: j, Attempt: att, Kind: DRAIN})) {
								return false
							}
						}
						// the fifth kind only as first or second fault of a plan (keeps the multiset count in bounds)
						if len(cur) < 2 && prog != "samestage" {
							if !rec(j, append(cur, Fault{Job: j, Attempt: att, Kind: MIDC})) {
								return false
							}
						}
					}
					return true
				}
				if !rec(0, nil) {
					return
				}
				mods := []string{"s", "m"}
				if prog == "twostages" {
					mods = []string{"s0", "s1", "m"}
				}
				if prog == "chain" {
					mods = []string{"src", "acc", "m"}
				}
				if prog == "storemap-ctx" {
					mods = nil // the deterministic half is the same as storemap's
				}
				if prog == "samestage" { // two stores in one layer: the pipeline runs them concurrently and collects their errors
					mods = []string{"sa", "sb", "m"}
				}
				for _, m := range mods {
					from := uint64(1)
					if m == "m" {
						from = start // the output map is only certain to run on the requested blocks
					}
					for n := from; n < stop; n++ {
						if !emit(Case{Kind: "deterministic", Prog: prog, Prod: prod, FailIn: m, FailAt: n}) {
							return
						}
					}
				}
			}
		}
		// the worker's block source shuts down cleanly after every block of the backfilled range, three requests
		for _, b := range []c04.Case{
			{Prog: "storemap", Prod: true, Seg: 3, SInit: 1, MInit: 2, Start: 4, Stop: 14, Final: 9},
			{Prog: "storemap", Prod: false, Seg: 3, SInit: 1, MInit: 2, Start: 7, Stop: 12, Final: 6},
			{Prog: "maponly", Prod: true, Seg: 2, SInit: 1, MInit: 1, Start: 3, Stop: 9, Final: 6},
			{Prog: "sparse", Prod: true, Seg: 2, SInit: 1, MInit: 1, Start: 2, Stop: 9, Final: 7},
		} {
			for n := uint64(1); n < b.Stop; n++ {
				v := b
				v.CleanEndAt, v.CleanEndTier2 = n, true
				if !emit(Case{Kind: "source-end", Prog: b.Prog, Prod: b.Prod, Src: &v}) {
					return
				}
			}
		}
	}, Eval)
	ctx.Sample(Case{Kind: "transient", Prog: "storemap", Prod: true, Faults: []Fault{{0, 1, MID}, {0, 2, POST}}})
	ctx.Sample(Case{Kind: "deterministic", Prog: "storemap", Prod: true, FailIn: "s", FailAt: 7})
	ctx.Cov["evaluations"] = st.Evaluations
	ctx.Cov["distinct_nontrivial"] = st.NonTrivial
	ctx.Cov["whole_system_runs"] = runs
	ctx.Cov["exhaustive"] = true
	jobsInfo := map[string]string{}
	for k, b := range baselines {
		jobsInfo[k] = fmt.Sprintf("%d jobs %v", len(b.units), b.units)
	}
	ctx.Cov["jobs_of_the_fault_free_runs"] = jobsInfo
	ctx.Cov["rule"] = fmt.Sprintf("request [%d,%d), segment %d, final block %d, both modes, on %v: every multiset of <= %d transient faults over the (job, attempt) sites of the request x kinds {call refused, service overloaded, stream dropped mid-way with the server side cancelled (seen by the client as Unavailable, or - as first or second fault - as the worker's own Canceled status; or the worker cancelled right after the job's last block, between the flush of the cached outputs and the flush of the store partial; or cancelled while a module's host call is in flight), stream dropped after the job wrote all its files}; the worker's own block source shutting down cleanly after every block of four requests (the request fails or is complete, and the same request afterwards on the same cache delivers the fault-free stream); and a deterministic module failure at every block 1..%d in every store and in the output map. The jobs are executed by the real work.RemoteWorker (retry loop, error classification) talking to a fake in-process transport whose server side is the real Tier2Service.processRange with the real tier2 error mapping. Oracle: transient -> the request completes with the fault-free stream; deterministic -> the error maps to invalid-argument through the real tier1 mapping, every delivered block is below the failing block, the delivered sequence is a prefix of the fault-free one, nothing after the error. Non-trivial: at least one injected fault site was reached.", start, stop, seg, final, progsList, maxFaults, stop-1)
	ctx.Assume = []string{
		"the gRPC transport is replaced by an in-process stream (status errors are constructed as grpc-go would deliver them); bufconn was not needed",
		"DeadlineExceeded is not in the transient alphabet: the worker gives up after three by design",
		"retry back-off shortened by the derr overlay",
	}
	_ = strings.Join
	return ctx.Finish(core.JSONRecheck(ctx.Prop, Eval))
}
