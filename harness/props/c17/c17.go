// Package c17: malformed requests are rejected with an error, never with a crash or a hang.
package c17

import (
	"context"
	"errors"
	"fmt"
	"math"
	"runtime"
	"time"

	"github.com/streamingfast/bstream"
	"google.golang.org/protobuf/proto"

	"github.com/streamingfast/substreams/orchestrator/plan"
	pbssinternal "github.com/streamingfast/substreams/pb/sf/substreams/intern/v2"
	pbsubstreamsrpc "github.com/streamingfast/substreams/pb/sf/substreams/rpc/v2"
	pbsubstreams "github.com/streamingfast/substreams/pb/sf/substreams/v1"
	"github.com/streamingfast/substreams/pipeline"
	"github.com/streamingfast/substreams/pipeline/exec"
	"github.com/streamingfast/substreams/service"

	"verifharness/core"
	"verifharness/modgen"
)

// ModF: per-field domain indexes of one module (see the tables below).
type ModF struct {
	Kind   int   `json:"kind"`
	Name   int   `json:"name"`
	Inputs []int `json:"inputs"`
	BinIdx int   `json:"bin_idx"`
	Filter int   `json:"filter"`
	Init   int   `json:"init"`
}

type Case struct {
	Mods     []ModF `json:"mods"`
	Binaries int    `json:"binaries"`
	Output   int    `json:"output"`
	Start    int    `json:"start"`
	Stop     int    `json:"stop"`
	Cursor   int    `json:"cursor"`
	Prod     bool   `json:"prod"`
	Debug    int    `json:"debug"`
	NilMods  bool   `json:"nil_modules,omitempty"`
}

var names = []string{"a", "b", "", "a:b", "bad name!", "c"}
var outputs = []string{"a", "b", "", "missing", "c"}
var inits = []uint64{0, 1, math.MaxUint64, 16, 6}
var starts = []int64{0, 1, 10, -5, 17, 16, 7}
var stops = []uint64{0, 1, 10, 15, 12, 5, 20, 25}
var binIdx = []uint32{0, 1, 5}

const nKinds = 6   // absent, map, store(valid), store(policy unset), store(policy 99), index
const nInputs = 15 // see mkInput
const nFilters = 17
const nBinaries = 3
const nCursors = 4
const nDebug = 3

func mkKind(m *pbsubstreams.Module, k int) {
	switch k {
	case 1:
		m.Kind = &pbsubstreams.Module_KindMap_{KindMap: &pbsubstreams.Module_KindMap{OutputType: "proto:x"}}
	case 2:
		m.Kind = &pbsubstreams.Module_KindStore_{KindStore: &pbsubstreams.Module_KindStore{UpdatePolicy: pbsubstreams.Module_KindStore_UPDATE_POLICY_SET, ValueType: "string"}}
	case 3:
		m.Kind = &pbsubstreams.Module_KindStore_{KindStore: &pbsubstreams.Module_KindStore{}}
	case 4:
		m.Kind = &pbsubstreams.Module_KindStore_{KindStore: &pbsubstreams.Module_KindStore{UpdatePolicy: 99, ValueType: "nope"}}
	case 5:
		m.Kind = &pbsubstreams.Module_KindBlockIndex_{KindBlockIndex: &pbsubstreams.Module_KindBlockIndex{OutputType: "proto:sf.substreams.index.v1.Keys"}}
	}
}

func mkInput(i int) *pbsubstreams.Module_Input {
	switch i {
	case 0:
		return &pbsubstreams.Module_Input{} // no one-of set
	case 1:
		return modgen.Source("")
	case 2:
		return modgen.Src()
	case 3:
		return modgen.Clock()
	case 4:
		return modgen.Source("a") // a source type spelled like a module name
	case 5:
		return modgen.MapIn("a")
	case 6:
		return modgen.MapIn("b")
	case 7:
		return modgen.MapIn("missing")
	case 8:
		return modgen.StoreIn("a", false)
	case 9:
		return modgen.StoreIn("b", true)
	case 10:
		return &pbsubstreams.Module_Input{Input: &pbsubstreams.Module_Input_Store_{Store: &pbsubstreams.Module_Input_Store{ModuleName: "a", Mode: 0}}}
	case 11:
		return &pbsubstreams.Module_Input{Input: &pbsubstreams.Module_Input_Store_{Store: &pbsubstreams.Module_Input_Store{ModuleName: "b", Mode: 7}}}
	case 12:
		return modgen.StoreIn("missing", false)
	case 13:
		return modgen.Params("a") // a param value spelled like a module name
	case 14:
		return modgen.MapIn("c")
	}
	panic("bad input index")
}

func mkFilter(m *pbsubstreams.Module, f int) {
	if f == 0 {
		return
	}
	f--
	target := []string{"a", "b", "missing", ""}[f/4] // "" = a present filter message naming no module
	bf := &pbsubstreams.Module_BlockFilter{Module: target}
	switch f % 4 {
	case 0: // query absent
	case 1:
		bf.Query = &pbsubstreams.Module_BlockFilter_QueryString{QueryString: "k"}
	case 2:
		bf.Query = &pbsubstreams.Module_BlockFilter_QueryString{QueryString: "-a"}
	case 3:
		bf.Query = &pbsubstreams.Module_BlockFilter_QueryFromParams{QueryFromParams: &pbsubstreams.Module_QueryFromParams{}}
	}
	m.BlockFilter = bf
}

func mkCursor(c int) string {
	switch c {
	case 1:
		return "garbage!"
	case 2:
		return (&bstream.Cursor{Step: bstream.StepNewIrreversible, Block: bstream.NewBlockRef("b5", 5), LIB: bstream.NewBlockRef("b5", 5), HeadBlock: bstream.NewBlockRef("b9", 9)}).ToOpaque()
	case 3:
		return (&bstream.Cursor{Step: bstream.StepNew, Block: bstream.NewBlockRef("b5", 5), LIB: bstream.NewBlockRef("b7", 7), HeadBlock: bstream.NewBlockRef("b9", 9)}).ToOpaque()
	}
	return ""
}

func build(cs Case) (*pbsubstreamsrpc.Request, error) {
	req := &pbsubstreamsrpc.Request{
		StartBlockNum:  starts[cs.Start],
		StopBlockNum:   stops[cs.Stop],
		StartCursor:    mkCursor(cs.Cursor),
		OutputModule:   outputs[cs.Output],
		ProductionMode: cs.Prod,
	}
	switch cs.Debug {
	case 1:
		req.DebugInitialStoreSnapshotForModules = []string{"a"}
	case 2:
		req.DebugInitialStoreSnapshotForModules = []string{"missing"}
	}
	if !cs.NilMods {
		mods := &pbsubstreams.Modules{}
		switch cs.Binaries {
		case 1:
			mods.Binaries = []*pbsubstreams.Binary{{Type: "wasm/rust-v1", Content: []byte("code")}}
		case 2:
			mods.Binaries = []*pbsubstreams.Binary{{Type: "unknown/type", Content: []byte("code")}}
		}
		for _, mf := range cs.Mods {
			m := &pbsubstreams.Module{Name: names[mf.Name], BinaryIndex: binIdx[mf.BinIdx], BinaryEntrypoint: "ep", InitialBlock: inits[mf.Init]}
			mkKind(m, mf.Kind)
			for _, i := range mf.Inputs {
				m.Inputs = append(m.Inputs, mkInput(i))
			}
			mkFilter(m, mf.Filter)
			mods.Modules = append(mods.Modules, m)
		}
		req.Modules = mods
	}
	// only wire-expressible shapes
	raw, err := proto.Marshal(req)
	if err != nil {
		return nil, err
	}
	out := &pbsubstreamsrpc.Request{}
	if err := proto.Unmarshal(raw, out); err != nil {
		return nil, err
	}
	return out, nil
}

// Eval: the stages a tier1 request goes through before any block is processed. Any panic is caught by core.Safe
// and reported with the panicking function in its key; a hang is caught by the per-case watchdog.
func Eval(cs Case) (*core.Fail, bool) {
	req, err := build(cs)
	if err != nil {
		return nil, false // not wire-expressible
	}
	rejected := true
	if err := service.ValidateTier1Request(req, modgen.BlockType); err == nil {
		g, err := exec.NewOutputModuleGraph(req.OutputModule, req.ProductionMode, req.Modules, 0)
		if err == nil {
			getLib := func() (uint64, error) { return 20, nil }
			getHead := func() (uint64, error) { return 30, nil }
			resolver := func(ctx context.Context, c *bstream.Cursor) (bstream.BlockRef, bstream.BlockRef, error) {
				return nil, nil, errors.New("unresolvable")
			}
			details, _, err := pipeline.BuildRequestDetails(context.Background(), req, getLib, resolver, getHead, 10)
			if err == nil {
				if g.ValidateRequestStartBlock(details.ResolvedStartBlockNum) == nil {
					scheduleStores := g.StagedUsedModules()[0].LastLayer().IsStoreLayer()
					var lowestStores uint64
					if scheduleStores {
						lowestStores = *g.LowestStoresInitBlock()
					}
					p, err := plan.BuildTier1RequestPlan(details.ProductionMode, 10, g.LowestInitBlock(), lowestStores, details.ResolvedStartBlockNum, details.LinearHandoffBlockNum, details.StopBlockNum, scheduleStores)
					if err == nil && p != nil {
						_ = p.String()
						rejected = false
					}
				}
			}
			for _, m := range g.UsedModules() {
				_ = g.ModuleHashes().Get(m.Name)
			}
		}
	}
	// the same modules in a tier2 sub-request
	if req.Modules != nil {
		t2 := &pbssinternal.ProcessRangeRequest{
			Modules: req.Modules, OutputModule: req.OutputModule, Stage: 0, MeteringConfig: "m", BlockType: modgen.BlockType,
			StateStore: "s", MergedBlocksStore: "b", SegmentSize: 10, SegmentNumber: 1,
		}
		if err := service.ValidateTier2Request(t2); err == nil {
			if g, err := exec.NewOutputModuleGraph(t2.OutputModule, true, t2.Modules, 0); err == nil {
				_ = g.StagedUsedModules()
			}
		}
	}
	return nil, rejected
}

func Run(ctx *core.Ctx) int {
	ctx.Level = "exploration"
	ctx.CaseTimeout = 30 * time.Second
	if ctx.Replay != "" {
		return core.RunReplay(ctx, Eval)
	}
	// memory guard: allocation without bound is a violation, not a crash of the check
	stopMem := make(chan struct{})
	go func() {
		var ms runtime.MemStats
		for {
			select {
			case <-stopMem:
				return
			case <-time.After(time.Second):
				runtime.ReadMemStats(&ms)
				if ms.HeapAlloc > 24<<30 {
					fmt.Printf("VIOLATION property=C17 replay=none\n  heap above 24 GiB while validating requests (unbounded allocation); aborting\n")
					panic("memory guard")
				}
			}
		}
	}()
	defer close(stopMem)

	maxInputs := 2
	if ctx.Thorough() {
		maxInputs = 3
	}
	var inputLists [][]int
	inputLists = append(inputLists, nil)
	for a := 0; a < nInputs; a++ {
		inputLists = append(inputLists, []int{a})
	}
	if maxInputs >= 2 {
		for a := 0; a < nInputs; a++ {
			for b := 0; b < nInputs; b++ {
				inputLists = append(inputLists, []int{a, b})
			}
		}
	}
	if maxInputs >= 3 {
		for a := 0; a < nInputs; a++ {
			for b := 0; b < nInputs; b++ {
				for c := 0; c < nInputs; c++ {
					inputLists = append(inputLists, []int{a, b, c})
				}
			}
		}
	}
	counts := map[string]int{}
	st := core.ParallelEnum(ctx, func(emit func(Case) bool) {
		// A: one module, every field free
		for kind := 0; kind < nKinds; kind++ {
			for name := 0; name < 5; name++ {
				for _, ins := range inputLists {
					for bi := range binIdx {
						for bins := 0; bins < nBinaries; bins++ {
							for f := 0; f < nFilters; f++ {
								for in := range inits {
									for _, prod := range []bool{false, true} {
										counts["one-module"]++
										if !emit(Case{Mods: []ModF{{kind, name, ins, bi, f, in}}, Binaries: bins, Output: 0, Start: 0, Stop: 2, Prod: prod}) {
											return
										}
									}
								}
							}
						}
					}
				}
			}
		}
		// B: two modules (duplicates, self and mutual references, dangling references always included)
		var second []ModF
		for kind := 0; kind < nKinds; kind++ {
			for _, name := range []int{1, 0} { // "b", or a duplicate "a"
				for _, ins := range inputLists {
					if len(ins) > 2 || (len(ins) > 1 && !ctx.Thorough()) {
						continue
					}
					for _, f := range []int{0, 2, 6} { // none, ->a query string, ->b query string
						for _, in := range []int{0, 1} {
							second = append(second, ModF{kind, name, ins, 0, f, in})
						}
					}
				}
			}
		}
		var first []ModF
		for kind := 1; kind < nKinds; kind++ {
			for _, ins := range [][]int{{2}, {6}, {9}, {5}, {8}, {13}, {2, 6}, {2, 9}} { // block; map b; store b deltas; self map; self store; params "a"; ...
				for _, f := range []int{0, 6, 2} {
					first = append(first, ModF{kind, 0, ins, 0, f, 0})
				}
			}
		}
		for _, a := range first {
			for _, b := range second {
				for out := 0; out < 2; out++ {
					counts["two-modules"]++
					if !emit(Case{Mods: []ModF{a, b}, Binaries: 1, Output: out, Start: 0, Stop: 2, Prod: out == 1}) {
						return
					}
				}
			}
		}
		// C: three modules: cycles a->b->c->a through inputs and filters, kinds mixed
		for ka := 1; ka < nKinds; ka++ {
			for kb := 1; kb < nKinds; kb++ {
				for kc := 1; kc < nKinds; kc++ {
					for _, ia := range [][]int{{2}, {14}, {6}, {9}} {
						for _, ib := range [][]int{{2}, {14}, {5}, {8}} {
							for _, ic := range [][]int{{2}, {5}, {6}, {8}, {9}} {
								for _, fc := range []int{0, 2, 6} {
									for out := 0; out < 5; out += 4 {
										counts["three-modules"]++
										if !emit(Case{Mods: []ModF{{ka, 0, ia, 0, 0, 0}, {kb, 1, ib, 0, 0, 0}, {kc, 5, ic, 0, fc, 1}}, Binaries: 1, Output: out, Start: 1, Stop: 0, Prod: true}) {
											return
										}
									}
								}
							}
						}
					}
				}
			}
		}
		// C2: a valid block-index module + a module filtered by it with every query kind (absent, string, '-a',
		// from-params) and every input list: a from-params filter on a module whose first input is not params, or that
		// has no params input at all, must be refused, not dereferenced
		for _, ins := range inputLists {
			if len(ins) > 2 {
				continue
			}
			for f := 5; f <= 8; f++ { // -> "b" x the four query kinds
				for kind := 1; kind <= 2; kind++ {
					for out := 0; out < 2; out++ {
						counts["index-and-filtered-module"]++
						if !emit(Case{Mods: []ModF{{5, 1, []int{2}, 0, 0, 0}, {kind, 0, ins, 0, f, 0}}, Binaries: 1, Output: out, Start: 0, Stop: 2, Prod: out == 0}) {
							return
						}
					}
				}
			}
		}
		// D: request-level fields, on a few module configurations
		cfgs := [][]ModF{
			{{1, 0, []int{2}, 0, 0, 1}},
			{{2, 0, []int{2}, 0, 0, 1}, {1, 1, []int{8}, 0, 0, 2}},
			{{5, 0, []int{2}, 0, 0, 0}, {1, 1, []int{2}, 0, 2, 0}},
			{{2, 0, []int{2}, 0, 0, 2}},
			// initial blocks inside a segment (segment size 10, final block 20): start and stop blocks then fall before,
			// inside and after the first segment, in either order
			{{1, 0, []int{2}, 0, 0, 3}},
			{{2, 0, []int{2}, 0, 0, 3}},
			{{2, 0, []int{2}, 0, 0, 4}, {1, 1, []int{8}, 0, 0, 3}},
			{},
		}
		for ci, cfg := range cfgs {
			for out := range outputs {
				for s := range starts {
					for e := range stops {
						for c := 0; c < nCursors; c++ {
							for _, prod := range []bool{false, true} {
								for d := 0; d < nDebug; d++ {
									counts["request-fields"]++
									if !emit(Case{Mods: cfg, Binaries: 1, Output: out, Start: s, Stop: e, Cursor: c, Prod: prod, Debug: d, NilMods: ci == len(cfgs)-1 && d == 2}) {
										return
									}
								}
							}
						}
					}
				}
			}
		}
	}, Eval)
	ctx.Sample(Case{Mods: []ModF{{0, 0, []int{2}, 0, 0, 0}}, Binaries: 1, Output: 0, Stop: 2})
	ctx.Sample(Case{Mods: []ModF{{1, 0, []int{6}, 0, 0, 0}, {1, 1, []int{5}, 0, 0, 0}}, Binaries: 1, Output: 1, Stop: 2})
	ctx.Cov["evaluations"] = st.Evaluations
	ctx.Cov["distinct_nontrivial"] = st.NonTrivial
	ctx.Cov["exhaustive"] = true
	ctx.Cov["by_family"] = counts
	ctx.Cov["rule"] = fmt.Sprintf("request messages built from per-field domains that include 'absent' (kind: absent/map/store valid/store policy unset/store policy 99/index; name: a,b,'',a:b,'bad name!'; inputs: lists of <=%d over 15 shapes incl. no one-of, empty source type, source or param spelled like a module, map/store to self/other/missing, store modes 0,1,2,7; binary index 0/1/5; binaries none/valid/unknown type; block filter none or -> a/b/missing/'' x query absent/string/'-a'/from-params; initial block 0,1,2^64-1). One module: full product. Two modules: 120 first x all second shapes (duplicate names, self/mutual/dangling references). Three modules: cycles through inputs and filters. Request fields: output x start {-5,0,1,7,10,16,17} x stop {0,1,5,10,12,15,20,25} (both orders of start and stop, below / inside / above the segment of a mid-segment initial block 6 or 16) x cursor {'',garbage,final,LIB>block} x mode x debug list on 8 module configs. Every message is marshalled and unmarshalled first. Each goes through ValidateTier1Request and, when accepted, NewOutputModuleGraph (hashing, staging), BuildRequestDetails, BuildTier1RequestPlan; and ValidateTier2Request + staging. Oracle: returns (value or error) - no panic, no 30 s hang, heap below 24 GiB. Non-trivial: the message is rejected at some stage (it differs from a valid request in at least one field); fully accepted messages are counted as trivial.", maxInputs)
	ctx.Assume = []string{"in-process: a panic is recovered per case, a hang is detected by a watchdog goroutine, memory by a heap guard (the design's sub-process per shard was not needed)"}
	return ctx.Finish(core.JSONRecheck(ctx.Prop, Eval))
}
