// Package c06: a module's cache identity changes exactly when its computation can change.
package c06

import (
	"fmt"
	"sort"
	"strings"
	"sync/atomic"

	"google.golang.org/protobuf/proto"

	"github.com/streamingfast/substreams/manifest"
	pbsubstreams "github.com/streamingfast/substreams/pb/sf/substreams/v1"
	"github.com/streamingfast/substreams/pipeline/exec"

	"verifharness/core"
	"verifharness/modgen"
)

type Case struct {
	Graph  modgen.GraphSpec `json:"graph"`
	Family string           `json:"family,omitempty"`
	// set in artefacts: restrict to one mutation
	Only string `json:"only,omitempty"`
	// also import the graph through the real manifest reader (files are written: done on a subset of the graphs)
	Reader bool `json:"reader,omitempty"`
}

// hashes: module name -> hash, for every module that can be staged as an output ("" when it cannot).
func hashes(mods *pbsubstreams.Modules) (map[string]string, bool) {
	if err := manifest.ValidateModules(mods); err != nil {
		return nil, false
	}
	if _, err := manifest.NewModuleGraph(mods.Modules); err != nil {
		return nil, false
	}
	out := map[string]string{}
	for _, m := range mods.Modules {
		g, err := exec.NewOutputModuleGraph(m.Name, true, mods, 0)
		if err != nil {
			return nil, false // only graphs in which every module can be staged are judged
		}
		h := g.ModuleHashes().Get(m.Name)
		if h == "" {
			return nil, false
		}
		out[m.Name] = h
		// the hash of a module must not depend on which output module the request names
		for _, u := range g.UsedModules() {
			hu := g.ModuleHashes().Get(u.Name)
			if prev, ok := out["@"+u.Name]; ok && prev != hu {
				out["!nondeterministic"] = u.Name
			}
			out["@"+u.Name] = hu
		}
	}
	return out, true
}

type mutation struct {
	name   string
	target int  // index of the mutated module
	expect bool // the statement lists the mutated field: the hash of target and its descendants must change
	class  string
	apply  func(m *pbsubstreams.Modules) bool // false: not applicable
}

func clone(m *pbsubstreams.Modules) *pbsubstreams.Modules {
	return proto.Clone(m).(*pbsubstreams.Modules)
}

func mutations(g modgen.GraphSpec) []mutation {
	var out []mutation
	for i := range g {
		i := i
		name := modgen.Name(i)
		add := func(n string, expect bool, class string, f func(mod *pbsubstreams.Module, all *pbsubstreams.Modules) bool) {
			out = append(out, mutation{name: fmt.Sprintf("%s(%s)", n, name), target: i, expect: expect, class: class, apply: func(ms *pbsubstreams.Modules) bool { return f(ms.Modules[i], ms) }})
		}
		add("initial-block+1", true, "initial-block", func(m *pbsubstreams.Module, _ *pbsubstreams.Modules) bool { m.InitialBlock++; return true })
		add("entrypoint", true, "entrypoint", func(m *pbsubstreams.Module, _ *pbsubstreams.Modules) bool { m.BinaryEntrypoint += "_v2"; return true })
		add("binary-content", true, "code", func(m *pbsubstreams.Module, all *pbsubstreams.Modules) bool {
			all.Binaries = append(all.Binaries, &pbsubstreams.Binary{Type: "wasm/rust-v1", Content: []byte("code-1")})
			m.BinaryIndex = uint32(len(all.Binaries) - 1)
			return true
		})
		add("binary-type", true, "code", func(m *pbsubstreams.Module, all *pbsubstreams.Modules) bool {
			all.Binaries = append(all.Binaries, &pbsubstreams.Binary{Type: "wasip1/tinygo-v1", Content: []byte("code-0")})
			m.BinaryIndex = uint32(len(all.Binaries) - 1)
			return true
		})
		add("kind", true, "kind", func(m *pbsubstreams.Module, _ *pbsubstreams.Modules) bool {
			switch m.Kind.(type) {
			case *pbsubstreams.Module_KindMap_:
				m.Kind = &pbsubstreams.Module_KindStore_{KindStore: &pbsubstreams.Module_KindStore{UpdatePolicy: pbsubstreams.Module_KindStore_UPDATE_POLICY_SET, ValueType: "string"}}
			case *pbsubstreams.Module_KindStore_:
				m.Kind = &pbsubstreams.Module_KindMap_{KindMap: &pbsubstreams.Module_KindMap{OutputType: "proto:verif.Out"}}
			default:
				m.Kind = &pbsubstreams.Module_KindMap_{KindMap: &pbsubstreams.Module_KindMap{OutputType: "proto:verif.Out"}}
			}
			return true
		})
		add("source-type", true, "source-type", func(m *pbsubstreams.Module, _ *pbsubstreams.Modules) bool {
			for _, in := range m.Inputs {
				if s := in.GetSource(); s != nil {
					if s.Type == modgen.BlockType {
						s.Type = modgen.ClockType
					} else {
						s.Type = modgen.BlockType
					}
					return true
				}
			}
			return false
		})
		add("param-value", true, "param", func(m *pbsubstreams.Module, _ *pbsubstreams.Modules) bool {
			for _, in := range m.Inputs {
				if p := in.GetParams(); p != nil {
					p.Value += "x"
					return true
				}
			}
			return false
		})
		// the parameter string reaches the module verbatim: every edit of it, white space and case included, can change
		// what the module computes
		for _, ed := range []struct {
			n string
			f func(string) string
		}{
			{"trailing-newline", func(v string) string { return v + "\n" }},
			{"trailing-space", func(v string) string { return v + " " }},
			{"leading-space", func(v string) string { return " " + v }},
			{"upper-case", strings.ToUpper},
			{"truncated", func(v string) string {
				if v == "" {
					return v
				}
				return v[:len(v)-1]
			}},
			{"emptied", func(string) string { return "" }},
		} {
			ed := ed
			add("param-value-"+ed.n, true, "param", func(m *pbsubstreams.Module, _ *pbsubstreams.Modules) bool {
				for _, in := range m.Inputs {
					if p := in.GetParams(); p != nil {
						nv := ed.f(p.Value)
						if nv == p.Value {
							return false
						}
						p.Value = nv
						return true
					}
				}
				return false
			})
		}
		add("add-source-input", true, "inputs", func(m *pbsubstreams.Module, _ *pbsubstreams.Modules) bool {
			for _, in := range m.Inputs {
				if in.GetSource() != nil {
					return false
				}
			}
			m.Inputs = append(m.Inputs, modgen.Clock())
			return true
		})
		add("add-params-input", true, "inputs", func(m *pbsubstreams.Module, _ *pbsubstreams.Modules) bool {
			for _, in := range m.Inputs {
				if in.GetParams() != nil {
					return false
				}
			}
			m.Inputs = append([]*pbsubstreams.Module_Input{modgen.Params("newparam")}, m.Inputs...)
			return true
		})
		add("remove-last-input", true, "inputs", func(m *pbsubstreams.Module, _ *pbsubstreams.Modules) bool {
			if len(m.Inputs) < 2 {
				return false
			}
			m.Inputs = m.Inputs[:len(m.Inputs)-1]
			return true
		})
		// add an input on an earlier module that is not yet an input
		for j := 0; j < i; j++ {
			j := j
			if g[i].Refs[j] != 0 || g[j].Kind == modgen.KIndex {
				continue
			}
			add("add-input:"+modgen.Name(j), true, "inputs", func(m *pbsubstreams.Module, _ *pbsubstreams.Modules) bool {
				if g[j].Kind == modgen.KStore {
					m.Inputs = append(m.Inputs, modgen.StoreIn(modgen.Name(j), false))
				} else {
					m.Inputs = append(m.Inputs, modgen.MapIn(modgen.Name(j)))
				}
				return true
			})
		}
		// retarget an input to another earlier module of the same kind
		for j := 0; j < i; j++ {
			for k := 0; k < i; k++ {
				j, k := j, k
				if j == k || g[i].Refs[j] == 0 || g[i].Refs[k] != 0 || g[j].Kind != g[k].Kind || g[j].Kind == modgen.KIndex {
					continue
				}
				add(fmt.Sprintf("retarget-input:%s->%s", modgen.Name(j), modgen.Name(k)), true, "inputs-retarget", func(m *pbsubstreams.Module, _ *pbsubstreams.Modules) bool {
					for _, in := range m.Inputs {
						if x := in.GetMap(); x != nil && x.ModuleName == modgen.Name(j) {
							x.ModuleName = modgen.Name(k)
							return true
						}
						if x := in.GetStore(); x != nil && x.ModuleName == modgen.Name(j) {
							x.ModuleName = modgen.Name(k)
							return true
						}
					}
					return false
				})
			}
		}
		// permute: swap two adjacent inputs (params must stay first)
		swapClass := "inputs-order:mixed-kinds"
		if n := len(g[i].Refs); n >= 0 {
			// the last two rendered inputs are module references of the same kind?
			var refs []int
			for j, r := range g[i].Refs {
				if r != 0 {
					refs = append(refs, j)
				}
			}
			if len(refs) >= 2 && g[refs[len(refs)-1]].Kind == g[refs[len(refs)-2]].Kind {
				swapClass = "inputs-order:two-module-inputs-of-the-same-kind"
			}
		}
		add("swap-last-two-inputs", true, swapClass, func(m *pbsubstreams.Module, _ *pbsubstreams.Modules) bool {
			n := len(m.Inputs)
			if n < 2 || m.Inputs[n-2].GetParams() != nil {
				return false
			}
			if proto.Equal(m.Inputs[n-1], m.Inputs[n-2]) {
				return false
			}
			m.Inputs[n-1], m.Inputs[n-2] = m.Inputs[n-2], m.Inputs[n-1]
			return true
		})
		add("filter-query", true, "block-filter", func(m *pbsubstreams.Module, _ *pbsubstreams.Modules) bool {
			if m.BlockFilter == nil {
				return false
			}
			m.BlockFilter.Query = &pbsubstreams.Module_BlockFilter_QueryString{QueryString: "k2"}
			return true
		})
		add("filter-query-from-params", true, "block-filter", func(m *pbsubstreams.Module, _ *pbsubstreams.Modules) bool {
			if m.BlockFilter == nil {
				return false
			}
			has := false
			for _, in := range m.Inputs {
				if in.GetParams() != nil {
					has = true
				}
			}
			if !has {
				return false
			}
			m.BlockFilter.Query = &pbsubstreams.Module_BlockFilter_QueryFromParams{QueryFromParams: &pbsubstreams.Module_QueryFromParams{}}
			return true
		})
		add("remove-filter", true, "block-filter", func(m *pbsubstreams.Module, _ *pbsubstreams.Modules) bool {
			if m.BlockFilter == nil {
				return false
			}
			m.BlockFilter = nil
			return true
		})
		for j := 0; j < i; j++ {
			j := j
			if g[j].Kind != modgen.KIndex || g[i].Kind == modgen.KIndex || g[i].Filter == j {
				continue
			}
			add("filter-module:"+modgen.Name(j), true, "block-filter", func(m *pbsubstreams.Module, _ *pbsubstreams.Modules) bool {
				m.BlockFilter = &pbsubstreams.Module_BlockFilter{Module: modgen.Name(j), Query: &pbsubstreams.Module_BlockFilter_QueryString{QueryString: "k"}}
				return true
			})
		}
		// fields the statement does not list: no expectation, reported as information
		add("store-policy", false, "info:policy", func(m *pbsubstreams.Module, _ *pbsubstreams.Modules) bool {
			if s := m.GetKindStore(); s != nil {
				s.UpdatePolicy = pbsubstreams.Module_KindStore_UPDATE_POLICY_SET_IF_NOT_EXISTS
				return true
			}
			return false
		})
		add("store-value-type", false, "info:value-type", func(m *pbsubstreams.Module, _ *pbsubstreams.Modules) bool {
			if s := m.GetKindStore(); s != nil {
				s.ValueType = "bytes"
				return true
			}
			return false
		})
		add("store-input-mode", false, "info:input-mode", func(m *pbsubstreams.Module, _ *pbsubstreams.Modules) bool {
			for _, in := range m.Inputs {
				if s := in.GetStore(); s != nil {
					if s.Mode == pbsubstreams.Module_Input_Store_GET {
						s.Mode = pbsubstreams.Module_Input_Store_DELTAS
					} else {
						s.Mode = pbsubstreams.Module_Input_Store_GET
					}
					return true
				}
			}
			return false
		})
		add("output-type", false, "info:output-type", func(m *pbsubstreams.Module, _ *pbsubstreams.Modules) bool {
			if k := m.GetKindMap(); k != nil {
				k.OutputType = "proto:verif.Other"
				if m.Output != nil {
					m.Output.Type = "proto:verif.Other"
				}
				return true
			}
			return false
		})
	}
	return out
}

// ancestorSet: sorted names of every module reachable from name through inputs and block filters (independent DFS on the message).
func ancestorSet(mods *pbsubstreams.Modules, name string) string {
	byName := map[string]*pbsubstreams.Module{}
	for _, m := range mods.Modules {
		byName[m.Name] = m
	}
	seen := map[string]bool{}
	var dfs func(n string)
	dfs = func(n string) {
		m := byName[n]
		if m == nil || seen[n] {
			return
		}
		seen[n] = true
		for _, in := range m.Inputs {
			if x := in.GetMap(); x != nil {
				dfs(x.ModuleName)
			}
			if x := in.GetStore(); x != nil {
				dfs(x.ModuleName)
			}
		}
		if m.BlockFilter != nil {
			dfs(m.BlockFilter.Module)
		}
	}
	dfs(name)
	var ns []string
	for n := range seen {
		ns = append(ns, n)
	}
	sort.Strings(ns)
	return strings.Join(ns, ",")
}

func descendants(g modgen.GraphSpec, i int) map[int]bool {
	out := map[int]bool{}
	for j := range g {
		if g.Closure(j)[i] {
			out[j] = true
		}
	}
	return out
}

// identity-preserving transformations: name -> (transformed modules, mapping old name -> new name)
func preserving(mods *pbsubstreams.Modules) map[string]func() (*pbsubstreams.Modules, func(string) string) {
	rename := func(f func(string) string) func() (*pbsubstreams.Modules, func(string) string) {
		return func() (*pbsubstreams.Modules, func(string) string) {
			c := clone(mods)
			for _, m := range c.Modules {
				m.Name = f(m.Name)
				for _, in := range m.Inputs {
					if x := in.GetMap(); x != nil {
						x.ModuleName = f(x.ModuleName)
					}
					if x := in.GetStore(); x != nil {
						x.ModuleName = f(x.ModuleName)
					}
				}
				if m.BlockFilter != nil {
					m.BlockFilter.Module = f(m.BlockFilter.Module)
				}
			}
			return c, f
		}
	}
	id := func(s string) string { return s }
	return map[string]func() (*pbsubstreams.Modules, func(string) string){
		"rename": rename(func(s string) string { return "renamed_" + s }),
		// what manifest.prefixModules does on import under an alias (the real Reader is driven by the alias-import cases)
		"alias-prefix": rename(func(s string) string { return "dep:" + s }),
		"add-unrelated-modules": func() (*pbsubstreams.Modules, func(string) string) {
			c := clone(mods)
			c.Modules = append(c.Modules, modgen.Map("zz_unrelated_map", 3, modgen.Src()), modgen.Store("zz_unrelated_store", 3, pbsubstreams.Module_KindStore_UPDATE_POLICY_SET, "string", modgen.MapIn("zz_unrelated_map")))
			return c, id
		},
		"prepend-unrelated-module": func() (*pbsubstreams.Modules, func(string) string) {
			c := clone(mods)
			c.Modules = append([]*pbsubstreams.Module{modgen.Map("aa_unrelated_map", 3, modgen.Clock())}, c.Modules...)
			return c, id
		},
		"reindex-binaries": func() (*pbsubstreams.Modules, func(string) string) {
			c := clone(mods)
			c.Binaries = append([]*pbsubstreams.Binary{{Type: "wasm/rust-v1", Content: []byte("other-code")}}, c.Binaries...)
			for _, m := range c.Modules {
				m.BinaryIndex++
			}
			return c, id
		},
	}
}

func describe(g modgen.GraphSpec) string {
	var parts []string
	kinds := []string{"map", "store", "index"}
	srcs := []string{"", "block", "clock"}
	for i, m := range g {
		var ins []string
		if m.Params {
			ins = append(ins, "params")
		}
		if m.Source > 0 {
			ins = append(ins, srcs[m.Source])
		}
		for j, r := range m.Refs {
			switch r {
			case 1:
				ins = append(ins, modgen.Name(j))
			case 2:
				ins = append(ins, modgen.Name(j)+":deltas")
			}
		}
		f := ""
		if m.Filter >= 0 {
			f = " filter=" + modgen.Name(m.Filter)
		}
		parts = append(parts, fmt.Sprintf("%s:%s@%d(%s)%s", modgen.Name(i), kinds[m.Kind], m.Init, strings.Join(ins, ","), f))
	}
	return strings.Join(parts, " ")
}

// Info: what the hash does with fields the statement does not list (reported, never judged).
var Info = struct {
	counts map[string][2]int64
}{}

type result struct {
	fail *core.Fail
	nt   bool
	info map[string][2]int
}

func evalFull(cs Case) result {
	g := cs.Graph
	base := g.Build()
	h0, ok := hashes(base)
	if !ok {
		return result{}
	}
	desc := func() string { return "[" + describe(g) + "]" }
	if n, bad := h0["!nondeterministic"]; bad {
		return result{fail: core.Failf("hash-depends-on-output-module", "%s: module %s has different hashes under different output modules", desc(), n)}
	}
	// determinism on fresh objects
	h0b, _ := hashes(g.Build())
	for k, v := range h0 {
		if h0b[k] != v {
			return result{fail: core.Failf("hash-not-deterministic", "%s: module %s", desc(), k)}
		}
	}
	res := result{info: map[string][2]int{}}
	for _, mu := range mutations(g) {
		if cs.Only != "" && cs.Only != mu.name {
			continue
		}
		mm := clone(base)
		if !mu.apply(mm) {
			continue
		}
		h1, ok := hashes(mm)
		if !ok {
			continue // the mutation does not keep the graph valid
		}
		desc2 := func() string { return fmt.Sprintf("%s mutation %s", desc(), mu.name) }
		// descendants in the *mutated or original* graph: a module that depends on the target before or after the change
		desc0 := descendants(g, mu.target)
		affected := map[string]bool{}
		for j := range desc0 {
			affected[modgen.Name(j)] = true
		}
		if !mu.expect {
			c := res.info[mu.class]
			if h1[modgen.Name(mu.target)] != h0[modgen.Name(mu.target)] {
				c[0]++
			} else {
				c[1]++
			}
			res.info[mu.class] = c
			continue
		}
		hasDesc, hasNon := false, false
		for j := range g {
			n := modgen.Name(j)
			if j != mu.target && affected[n] {
				hasDesc = true
			}
			if !affected[n] {
				hasNon = true
			}
		}
		if hasDesc && hasNon {
			res.nt = true
		}
		for j := range g {
			n := modgen.Name(j)
			changed := h0[n] != h1[n]
			if affected[n] && !changed {
				who := "the mutated module"
				if j != mu.target {
					who = "its descendant " + n
				}
				class := mu.class
				if class == "inputs-retarget" {
					if ancestorSet(base, modgen.Name(mu.target)) == ancestorSet(mm, modgen.Name(mu.target)) {
						class += ":within-the-ancestor-set"
					} else {
						class += ":ancestor-set-changed"
					}
				}
				return result{fail: core.Failf("unchanged-after:"+class, "%s: hash of %s is unchanged (%s)", desc2(), who, h0[n]), nt: res.nt}
			}
			if !affected[n] && changed {
				return result{fail: core.Failf("changed-unrelated-after:"+mu.class, "%s: hash of %s changed although it does not depend on %s", desc2(), n, modgen.Name(mu.target)), nt: res.nt}
			}
		}
	}
	// identity-preserving transformations
	pres := preserving(base)
	var names []string
	for n := range pres {
		names = append(names, n)
	}
	sort.Strings(names)
	for _, n := range names {
		if cs.Only != "" && cs.Only != n {
			continue
		}
		mm, f := pres[n]()
		h1, ok := hashes(mm)
		if !ok {
			return result{fail: core.Failf("preserving-transformation-rejected:"+n, "%s: transformed graph is rejected", desc()), nt: res.nt}
		}
		for j := range g {
			old := modgen.Name(j)
			if h0[old] != h1[f(old)] {
				return result{fail: core.Failf("hash-changed-by:"+n, "%s: hash of %s changed from %s to %s under %s", desc(), old, h0[old], h1[f(old)], n), nt: res.nt}
			}
		}
	}
	// alias import and binary re-indexing through the real manifest reader
	for _, v := range readerVariants {
		n := fmt.Sprintf("reader-import(depth=%d,binaries=%d,step=%d,offset=%d)", v[0], v[1], v[2], v[3])
		if cs.Only != "" && cs.Only != n {
			continue
		}
		if !cs.Reader && cs.Only == "" {
			break
		}
		sp := spread(base, v[1], v[2], v[3])
		hs, ok := hashes(sp)
		if !ok {
			continue
		}
		mm, prefix, err := importThroughReader(sp, v[0])
		if err != nil {
			return result{fail: core.Failf("preserving-transformation-rejected:reader-import", "%s: %s: the manifest reader rejects the import: %v", desc(), n, err), nt: res.nt}
		}
		h1, ok := hashes(mm)
		if !ok {
			return result{fail: core.Failf("preserving-transformation-rejected:reader-import", "%s: %s: the merged package is rejected", desc(), n), nt: res.nt}
		}
		for j := range g {
			old := modgen.Name(j)
			if hs[old] != h1[prefix+old] {
				return result{fail: core.Failf("hash-changed-by:reader-import", "%s: hash of %s (binary %d of %d) changed from %s to %s when its package is imported through the manifest reader as %s%s [%s]", desc(), old, sp.Modules[j].BinaryIndex, v[1], hs[old], h1[prefix+old], prefix, old, n), nt: res.nt}
			}
		}
	}
	return res
}

// (depth, number of binaries, step, offset): module i of the imported package runs from binary (i*step+offset) % binaries
var readerVariants = [][4]int{{1, 1, 0, 0}, {1, 2, 1, 0}, {1, 2, 1, 1}, {1, 3, 1, 0}, {1, 3, 2, 1}, {2, 1, 0, 0}, {2, 2, 1, 0}, {2, 2, 1, 1}, {2, 3, 1, 2}}

func Eval(cs Case) (*core.Fail, bool) {
	r := evalFull(cs)
	return r.fail, r.nt
}

var readerAll = false

// readerFor: which generated graphs also go through the manifest reader (file I/O: ~10 reader runs per graph).
func readerFor(n, ordinal int) bool { return readerAll || n <= 2 }

func Run(ctx *core.Ctx) int {
	ctx.Level = "exploration"
	defer cleanupScratch()
	readerAll = ctx.Args["reader-all"] != ""
	if ctx.Replay != "" {
		return core.RunReplay(ctx, Eval)
	}
	type tier struct {
		n int
		o modgen.EnumOpts
	}
	tiers := []tier{
		{1, modgen.EnumOpts{Inits: []uint64{0, 1, 5}, Sources: []int{0, 1, 2}, Params: true, Deltas: true}},
		{2, modgen.EnumOpts{Inits: []uint64{0, 1, 5}, Sources: []int{0, 1, 2}, Params: true, Deltas: true}},
		{3, modgen.EnumOpts{Inits: []uint64{0, 5}, Sources: []int{0, 1}, Params: true, Deltas: false}},
	}
	if ctx.Thorough() {
		tiers[2] = tier{3, modgen.EnumOpts{Inits: []uint64{0, 1, 5}, Sources: []int{0, 1, 2}, Params: true, Deltas: true}}
		tiers = append(tiers, tier{4, modgen.EnumOpts{Inits: []uint64{0, 5}, Sources: []int{0, 1}, Params: false, Deltas: false}})
	}
	graphs := 0
	st := core.ParallelEnum(ctx, func(emit func(Case) bool) {
		for _, t := range tiers {
			ok := modgen.EnumGraphs(t.n, t.o, func(g modgen.GraphSpec) bool {
				graphs++
				return emit(Case{Graph: g, Reader: readerFor(t.n, graphs)})
			})
			if !ok {
				return
			}
		}
		for n, g := range modgen.Families() {
			graphs++
			emit(Case{Graph: g, Family: n, Reader: true})
		}
	}, Eval)
	// informational pass on the families: what the hash does with unlisted fields
	info := map[string][2]int{}
	for _, g := range modgen.Families() {
		for k, v := range evalFull(Case{Graph: g}).info {
			c := info[k]
			c[0] += v[0]
			c[1] += v[1]
			info[k] = c
		}
	}
	infoOut := map[string]string{}
	for k, v := range info {
		infoOut[k] = fmt.Sprintf("hash changed in %d cases, unchanged in %d (no expectation: the statement does not list this field)", v[0], v[1])
	}
	ctx.Sample(map[string]any{"graph": describe(modgen.Families()["diamond6"]), "mutations": "every single-field mutation of every module + 5 identity-preserving transformations"})
	ctx.Cov["evaluations"] = st.Evaluations
	ctx.Cov["graphs_generated"] = graphs
	ctx.Cov["manifest_reader_imports"] = atomic.LoadInt64(&readerRuns)
	ctx.Cov["distinct_nontrivial"] = st.NonTrivial
	ctx.Cov["exhaustive"] = true
	ctx.Cov["unlisted_fields_information"] = infoOut
	ctx.Cov["rule"] = "every module list of n<=3 (thorough: full domain at n=3, reduced at n=4) + 6 families of 4-8 modules in which every module can be staged; for each, every single-field mutation of every module that keeps the graph valid (initial block, entry point, binary content, binary type, kind, source type, param value, add source/params/module input, remove input, retarget an input to another module of the same kind, swap two inputs, block-filter module/query/from-params/removal) and the identity-preserving transformations (consistent rename, alias prefix as done by the manifest reader, unrelated modules appended/prepended, binaries re-indexed). Hashes read from exec.NewOutputModuleGraph(...).ModuleHashes() for every output module choice, twice on fresh objects. Oracle: after a mutation of m the hash changes for m and every module having m as ancestor (independent DFS) and for nothing else; unchanged everywhere after a preserving transformation; independent of the output module. An evaluation is one graph with all its mutations; non-trivial: a mutated module with at least one descendant and one non-descendant."
	ctx.Assume = []string{
		"fields the statement does not list (update policy, value type, store input mode, output type) are mutated but carry no expectation; what the hash does is reported under unlisted_fields_information",
		"generated source types and param values never coincide with a module name (that class is reported separately)",
	}
	return ctx.Finish(core.JSONRecheck(ctx.Prop, Eval))
}
