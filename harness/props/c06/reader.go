package c06

import (
	"fmt"
	"os"
	"path/filepath"
	"sync"
	"sync/atomic"

	"google.golang.org/protobuf/proto"

	"github.com/streamingfast/substreams/manifest"
	pbsubstreams "github.com/streamingfast/substreams/pb/sf/substreams/v1"
)

// Alias import and binary re-indexing through the real manifest reader: the module list is written as a package
// file (lib.spkg), a manifest with its own binary and module imports it under an alias (depth 1), or imports a
// manifest that imports it (depth 2); manifest.Reader.Read loads, prefixes, re-indexes and merges them. The hashes of
// the imported modules must be those of the package on its own.

var readerRuns int64
var scratchOnce sync.Once
var scratchDir string

// scratchBase is created on first use only (every check runs in the same binary).
func scratchBase() string {
	scratchOnce.Do(func() {
		for _, d := range []string{"/dev/shm", os.TempDir()} {
			if p, err := os.MkdirTemp(d, "verif-c06-"); err == nil {
				scratchDir = p
				return
			}
		}
		panic("no scratch directory")
	})
	return scratchDir
}

func cleanupScratch() {
	if scratchDir != "" {
		os.RemoveAll(scratchDir)
	}
}

// spread gives the module list nb binaries with different contents, module i running from binary (i*step+off) % nb.
func spread(mods *pbsubstreams.Modules, nb, step, off int) *pbsubstreams.Modules {
	c := clone(mods)
	c.Binaries = nil
	for k := 0; k < nb; k++ {
		c.Binaries = append(c.Binaries, &pbsubstreams.Binary{Type: "wasm/rust-v1", Content: []byte(fmt.Sprintf("code-of-binary-%d", k))})
	}
	for i, m := range c.Modules {
		m.BinaryIndex = uint32((i*step + off) % nb)
	}
	return c
}

const manifestTmpl = `specVersion: v0.1.0
package:
  name: %s
  version: v0.1.0
imports:
  %s: %s
binaries:
  default:
    type: wasm/rust-v1
    file: %s
modules:
  - name: %s_own
    kind: map
    initialBlock: 0
    inputs:
      - source: sf.test.Block
    output:
      type: proto:verif.Out
`

// importThroughReader returns the merged module list and the prefix under which the package's modules appear.
func importThroughReader(mods *pbsubstreams.Modules, depth int) (*pbsubstreams.Modules, string, error) {
	atomic.AddInt64(&readerRuns, 1)
	dir, err := os.MkdirTemp(scratchBase(), "imp")
	if err != nil {
		return nil, "", err
	}
	defer os.RemoveAll(dir)
	pkg := &pbsubstreams.Package{
		Version:     1,
		PackageMeta: []*pbsubstreams.PackageMetadata{{Name: "lib", Version: "v0.1.0"}},
		Modules:     clone(mods),
	}
	for range mods.Modules {
		pkg.ModuleMeta = append(pkg.ModuleMeta, &pbsubstreams.ModuleMetadata{PackageIndex: 0})
	}
	raw, err := proto.Marshal(pkg)
	if err != nil {
		return nil, "", err
	}
	lib := filepath.Join(dir, "lib.spkg")
	wasm := filepath.Join(dir, "own.wasm")
	if err := os.WriteFile(lib, raw, 0o644); err != nil {
		return nil, "", err
	}
	if err := os.WriteFile(wasm, []byte("the importing package's own code"), 0o644); err != nil {
		return nil, "", err
	}
	// the converter prints a warning on standard output for every manifest without a README next to it
	if err := os.WriteFile(filepath.Join(dir, "README.md"), []byte("generated\n"), 0o644); err != nil {
		return nil, "", err
	}
	top := filepath.Join(dir, "top.yaml")
	prefix := "lib:"
	if depth == 1 {
		if err := os.WriteFile(top, []byte(fmt.Sprintf(manifestTmpl, "top", "lib", lib, wasm, "top")), 0o644); err != nil {
			return nil, "", err
		}
	} else {
		mid := filepath.Join(dir, "mid.yaml")
		if err := os.WriteFile(mid, []byte(fmt.Sprintf(manifestTmpl, "mid", "lib", lib, wasm, "mid")), 0o644); err != nil {
			return nil, "", err
		}
		if err := os.WriteFile(top, []byte(fmt.Sprintf(manifestTmpl, "top", "mid", mid, wasm, "top")), 0o644); err != nil {
			return nil, "", err
		}
		prefix = "mid:lib:"
	}
	r, err := manifest.NewReader(top)
	if err != nil {
		return nil, "", err
	}
	b, err := r.Read()
	if err != nil {
		return nil, "", err
	}
	return b.Package.Modules, prefix, nil
}
