// Package c13: segments tile every block range exactly (block.Segmenter, Range.Split, Ranges.Merged).
package c13

import (
	"fmt"

	"github.com/streamingfast/substreams/block"

	"verifharness/core"
)

type Case struct {
	Kind   string      `json:"kind"` // seg | split | merged | buckets | pred | dedupe
	Size   uint64      `json:"size,omitempty"`
	Init   uint64      `json:"init,omitempty"`
	End    uint64      `json:"end,omitempty"`
	Ranges [][2]uint64 `json:"ranges,omitempty"`
	// the segmenter is derived from another one: "init" = NewSegmenter(size, From, end).WithInitialBlock(init),
	// "end" = NewSegmenter(size, init, From).WithExclusiveEndBlock(end); "" = NewSegmenter(size, init, end)
	Derive string `json:"derive,omitempty"`
	From   uint64 `json:"from,omitempty"`
}

func evalSeg(c Case) (*core.Fail, bool) {
	size, init, end := c.Size, c.Init, c.End
	s := block.NewSegmenter(size, init, end)
	switch c.Derive {
	case "init":
		s = block.NewSegmenter(size, c.From, end).WithInitialBlock(init)
	case "end":
		s = block.NewSegmenter(size, init, c.From).WithExclusiveEndBlock(end)
	}
	if c.Derive != "" {
		if s.InitialBlock() != init || s.ExclusiveEndBlock() != end {
			return core.Failf("seg:derived-bounds", "size=%d init=%d end=%d derived by %s from %d: bounds [%d,%d)", size, init, end, c.Derive, c.From, s.InitialBlock(), s.ExclusiveEndBlock()), false
		}
	}
	first, last := s.FirstIndex(), s.LastIndex()
	// reference: the segment containing block b is b/size, clipped to [init,end)
	refRange := func(idx int) (uint64, uint64, bool) {
		lo := uint64(idx) * size
		hi := lo + size
		if lo < init {
			lo = init
		}
		if hi > end {
			hi = end
		}
		if idx < 0 || lo >= hi {
			return 0, 0, false
		}
		return lo, hi, true
	}
	if first != int(init/size) || last != int((end-1)/size) {
		return core.Failf("seg:first-last-index", "size=%d init=%d end=%d first=%d last=%d", size, init, end, first, last), false
	}
	if s.Count() != last-first+1 {
		return core.Failf("seg:count", "size=%d init=%d end=%d count=%d", size, init, end, s.Count()), false
	}
	covered := make(map[uint64]int)
	var prevEnd uint64 = init
	for idx := first - 2; idx <= last+2; idx++ {
		if idx < 0 {
			if r := s.Range(idx); r != nil && idx < first {
				return core.Failf("seg:range-outside-not-nil", "size=%d init=%d end=%d idx=%d got %s", size, init, end, idx, r), false
			}
			continue
		}
		r := s.Range(idx)
		lo, hi, ok := refRange(idx)
		if idx < first || idx > last {
			if r != nil {
				return core.Failf("seg:range-outside-not-nil", "size=%d init=%d end=%d idx=%d got %s want nil", size, init, end, idx, r), false
			}
			continue
		}
		if !ok {
			return core.Failf("harness:ref", "reference has no segment for in-range idx %d", idx), false
		}
		if r == nil {
			return core.Failf("seg:range-nil-inside", "size=%d init=%d end=%d idx=%d got nil want [%d,%d)", size, init, end, idx, lo, hi), false
		}
		if r.StartBlock != lo || r.ExclusiveEndBlock != hi {
			return core.Failf("seg:range-wrong", "size=%d init=%d end=%d idx=%d got %s want [%d,%d)", size, init, end, idx, r, lo, hi), false
		}
		// tiling properties stated directly (independent of refRange)
		if r.StartBlock >= r.ExclusiveEndBlock {
			return core.Failf("seg:empty", "size=%d init=%d end=%d idx=%d %s", size, init, end, idx, r), false
		}
		if r.StartBlock != prevEnd {
			return core.Failf("seg:not-contiguous", "size=%d init=%d end=%d idx=%d %s prevEnd=%d", size, init, end, idx, r, prevEnd), false
		}
		if idx != first && r.StartBlock%size != 0 {
			return core.Failf("seg:unaligned-start", "size=%d init=%d end=%d idx=%d %s", size, init, end, idx, r), false
		}
		if idx != last && r.ExclusiveEndBlock%size != 0 {
			return core.Failf("seg:unaligned-end", "size=%d init=%d end=%d idx=%d %s", size, init, end, idx, r), false
		}
		if got, want := s.EndsOnInterval(idx), r.ExclusiveEndBlock%size == 0; got != want {
			return core.Failf("seg:ends-on-interval", "size=%d init=%d end=%d idx=%d got %v", size, init, end, idx, got), false
		}
		prevEnd = r.ExclusiveEndBlock
		for b := r.StartBlock; b < r.ExclusiveEndBlock; b++ {
			covered[b]++
		}
	}
	if prevEnd != end {
		return core.Failf("seg:union-short", "size=%d init=%d end=%d union ends at %d", size, init, end, prevEnd), false
	}
	for b := uint64(0); b <= end+2; b++ {
		want := 0
		if b >= init && b < end {
			want = 1
		}
		if covered[b] != want {
			return core.Failf("seg:cover", "size=%d init=%d end=%d block %d covered %d times want %d", size, init, end, b, covered[b], want), false
		}
		// index functions designate the segment containing the block
		if b >= init && b < end {
			r := s.Range(s.IndexForStartBlock(b))
			if r == nil || !(b >= r.StartBlock && b < r.ExclusiveEndBlock) {
				return core.Failf("seg:index-for-start", "size=%d init=%d end=%d block %d -> idx %d -> %s", size, init, end, b, s.IndexForStartBlock(b), r), false
			}
		}
		// an exclusive end block e (init < e <= end) designates the segment containing e-1
		if b > init && b <= end {
			r := s.Range(s.IndexForEndBlock(b))
			if r == nil || !(b-1 >= r.StartBlock && b-1 < r.ExclusiveEndBlock) {
				return core.Failf("seg:index-for-end", "size=%d init=%d end=%d endblock %d -> idx %d -> %s", size, init, end, b, s.IndexForEndBlock(b), r), false
			}
		}
	}
	nontrivial := last > first && (init%size != 0 || end%size != 0)
	return nil, nontrivial
}

func coverSet(rs []*block.Range) (map[uint64]int, error) {
	m := map[uint64]int{}
	for _, r := range rs {
		if r == nil {
			return nil, fmt.Errorf("nil range")
		}
		if r.StartBlock >= r.ExclusiveEndBlock {
			return nil, fmt.Errorf("empty range %s", r)
		}
		for b := r.StartBlock; b < r.ExclusiveEndBlock; b++ {
			m[b]++
		}
	}
	return m, nil
}

func evalSplit(c Case) (*core.Fail, bool) {
	r := block.NewRange(c.Init, c.End)
	out := r.Split(c.Size)
	m, err := coverSet(out)
	if err != nil {
		return core.Failf("split:bad-chunk", "[%d,%d) chunk %d: %v", c.Init, c.End, c.Size, err), false
	}
	for b := uint64(0); b <= c.End+1; b++ {
		want := 0
		if b >= c.Init && b < c.End {
			want = 1
		}
		if m[b] != want {
			return core.Failf("split:cover", "[%d,%d) chunk %d: block %d covered %d times: %v", c.Init, c.End, c.Size, b, m[b], block.Ranges(out)), false
		}
	}
	for i, ch := range out {
		if i > 0 && out[i-1].ExclusiveEndBlock != ch.StartBlock {
			return core.Failf("split:order", "[%d,%d) chunk %d: %v", c.Init, c.End, c.Size, block.Ranges(out)), false
		}
		if ch.ExclusiveEndBlock-ch.StartBlock > c.Size {
			return core.Failf("split:chunk-too-big", "[%d,%d) chunk %d: %v", c.Init, c.End, c.Size, block.Ranges(out)), false
		}
	}
	return nil, len(out) >= 2 && (c.Init%c.Size != 0 || c.End%c.Size != 0)
}

func evalMerged(c Case) (*core.Fail, bool) {
	var in block.Ranges
	for _, p := range c.Ranges {
		in = append(in, block.NewRange(p[0], p[1]))
	}
	want, _ := coverSet(in)
	var out block.Ranges
	if c.Kind == "buckets" {
		out = in.MergedBuckets(c.Size)
	} else {
		out = in.Merged()
	}
	got, err := coverSet(out)
	if err != nil {
		return core.Failf(c.Kind+":bad-range", "%v -> %v: %v", in, out, err), false
	}
	if len(got) != len(want) {
		return core.Failf(c.Kind+":cover", "%v -> %v", in, out), false
	}
	for b, n := range want {
		if got[b] != n {
			return core.Failf(c.Kind+":cover", "%v -> %v (block %d)", in, out, b), false
		}
	}
	adj := 0
	for i := 1; i < len(out); i++ {
		if out[i-1].ExclusiveEndBlock > out[i].StartBlock {
			return core.Failf(c.Kind+":order", "%v -> %v", in, out), false
		}
		if c.Kind == "merged" && out[i-1].ExclusiveEndBlock == out[i].StartBlock {
			return core.Failf("merged:adjacent-left", "%v -> %v: adjacent ranges not merged", in, out), false
		}
	}
	for i := 1; i < len(in); i++ {
		if in[i-1].ExclusiveEndBlock == in[i].StartBlock {
			adj++
		}
	}
	if c.Kind == "buckets" {
		for _, o := range out {
			// a bucket made of >1 input must not exceed the max
			single := false
			for _, i := range in {
				if i.StartBlock == o.StartBlock && i.ExclusiveEndBlock == o.ExclusiveEndBlock {
					single = true
				}
			}
			if !single && o.ExclusiveEndBlock-o.StartBlock > c.Size {
				return core.Failf("buckets:too-big", "%v max %d -> %v", in, c.Size, out), false
			}
		}
	}
	return nil, adj >= 1 && len(in) >= 3
}

// evalPred: the predicates of one range [Init,End) (End may equal Init: the empty range) against plain arithmetic, for
// every block 0..End+2, and Equals / Ranges.Contains against every range over the same span.
func evalPred(c Case) (*core.Fail, bool) {
	a, b := c.Init, c.End
	r := block.NewRange(a, b)
	if r.Size() != b-a || r.Len() != b-a || r.IsEmpty() != (a == b) {
		return core.Failf("pred:size", "[%d,%d) size=%d len=%d empty=%v", a, b, r.Size(), r.Len(), r.IsEmpty()), false
	}
	for x := uint64(0); x <= b+2; x++ {
		in := x >= a && x < b
		if r.Contains(x) != in || r.IsOutOfBounds(x) != !in || r.IsBelow(x) != (x < a) {
			return core.Failf("pred:contains", "[%d,%d) block %d contains=%v out-of-bounds=%v below=%v", a, b, x, r.Contains(x), r.IsOutOfBounds(x), r.IsBelow(x)), false
		}
		if r.IsAbove(x) && x <= b {
			return core.Failf("pred:above", "[%d,%d) block %d reported above the range", a, b, x), false
		}
	}
	list := block.Ranges{block.NewRange(a, b), block.NewRange(b, b+1)}
	for o1 := uint64(0); o1 <= b+1; o1++ {
		for o2 := o1; o2 <= b+2; o2++ {
			o := block.NewRange(o1, o2)
			if r.Equals(o) != (o1 == a && o2 == b) {
				return core.Failf("pred:equals", "[%d,%d) equals [%d,%d) = %v", a, b, o1, o2, r.Equals(o)), false
			}
			if list.Contains(o) != ((o1 == a && o2 == b) || (o1 == b && o2 == b+1)) {
				return core.Failf("pred:list-contains", "%v contains [%d,%d) = %v", list, o1, o2, list.Contains(o)), false
			}
		}
	}
	return nil, a > 0 && b > a+1
}

// evalDedupe: Ranges is a sorted disjoint list; every rearrangement of it with duplicates (reversed, rotated, doubled,
// interleaved with itself) must come back from SortAndDedupe as the list itself, and SortAndDedupe().Merged() (what the
// scheduler reports as processed ranges) must cover exactly the same blocks.
func evalDedupe(c Case) (*core.Fail, bool) {
	var base block.Ranges
	for _, p := range c.Ranges {
		base = append(base, block.NewRange(p[0], p[1]))
	}
	want, _ := coverSet(base)
	n := len(base)
	var arrangements []block.Ranges
	rev := make(block.Ranges, 0, n)
	for i := n - 1; i >= 0; i-- {
		rev = append(rev, block.NewRange(base[i].StartBlock, base[i].ExclusiveEndBlock))
	}
	arrangements = append(arrangements, rev)
	for k := 0; k < n; k++ {
		rot := make(block.Ranges, 0, 2*n)
		for i := 0; i < n; i++ {
			x := base[(i+k)%n]
			rot = append(rot, block.NewRange(x.StartBlock, x.ExclusiveEndBlock))
		}
		arrangements = append(arrangements, rot)
		dbl := append(append(block.Ranges{}, rot...), rev...)
		arrangements = append(arrangements, dbl)
	}
	for _, in := range arrangements {
		out := in.SortAndDedupe()
		if len(out) != n {
			return core.Failf("dedupe:length", "%v -> %v want %v", in, out, base), false
		}
		for i := range out {
			if out[i] == nil || out[i].StartBlock != base[i].StartBlock || out[i].ExclusiveEndBlock != base[i].ExclusiveEndBlock {
				return core.Failf("dedupe:order", "%v -> %v want %v", in, out, base), false
			}
		}
		got, err := coverSet(out.Merged())
		if err != nil || len(got) != len(want) {
			return core.Failf("dedupe:merged-cover", "%v -> %v", in, out.Merged()), false
		}
		for b, k := range want {
			if got[b] != k {
				return core.Failf("dedupe:merged-cover", "%v -> %v (block %d)", in, out.Merged(), b), false
			}
		}
	}
	return nil, n >= 3
}

func Eval(c Case) (*core.Fail, bool) {
	switch c.Kind {
	case "pred":
		return evalPred(c)
	case "dedupe":
		return evalDedupe(c)
	case "seg":
		return evalSeg(c)
	case "split":
		return evalSplit(c)
	case "merged", "buckets":
		return evalMerged(c)
	}
	return core.Failf("harness:kind", "unknown kind %q", c.Kind), false
}

// genLists enumerates every sorted list of pairwise disjoint (possibly adjacent) non-empty ranges over 0..max with at most maxLen ranges.
func genLists(max uint64, maxLen int, from uint64, cur [][2]uint64, emit func([][2]uint64) bool) bool {
	if len(cur) > 0 {
		cp := make([][2]uint64, len(cur))
		copy(cp, cur)
		if !emit(cp) {
			return false
		}
	}
	if len(cur) == maxLen {
		return true
	}
	for a := from; a < max; a++ {
		for b := a + 1; b <= max; b++ {
			if !genLists(max, maxLen, b, append(cur, [2]uint64{a, b}), emit) {
				return false
			}
		}
	}
	return true
}

func Run(ctx *core.Ctx) int {
	ctx.Level = "exploration"
	if ctx.Replay != "" {
		return core.RunReplay(ctx, Eval)
	}
	maxSize, maxInit, maxEnd := uint64(16), uint64(64), uint64(96)
	listMaxA, listMaxB, listLenB := uint64(10), uint64(24), 3
	if ctx.Thorough() {
		maxSize, maxInit, maxEnd = 24, 96, 160
		listMaxA, listMaxB, listLenB = 12, 32, 3
	}
	counts := map[string]int64{}
	st := core.ParallelEnum(ctx, func(emit func(Case) bool) {
		for size := uint64(1); size <= maxSize; size++ {
			for init := uint64(0); init <= maxInit; init++ {
				for end := init + 1; end <= maxEnd; end++ {
					counts["seg"]++
					// the same segmenter derived from another one (the orchestrator derives every stage and module
					// segmenter this way): from a neighbouring initial block, the segment's boundaries, one segment away
					base := init / size * size
					for _, from := range []uint64{init - 1, init + 1, base, base + size - 1, init + size, 0} {
						if from != init && from < end && from <= maxInit+size {
							if !emit(Case{Kind: "seg", Size: size, Init: init, End: end, Derive: "init", From: from}) {
								return
							}
						}
					}
					for _, from := range []uint64{end - 1, end + 1, end + size} {
						if from > init {
							if !emit(Case{Kind: "seg", Size: size, Init: init, End: end, Derive: "end", From: from}) {
								return
							}
						}
					}
					if !emit(Case{Kind: "seg", Size: size, Init: init, End: end}) {
						return
					}
				}
			}
		}
		for a := uint64(0); a < 64; a++ {
			for b := a + 1; b <= 64; b++ {
				for ch := uint64(1); ch <= maxSize; ch++ {
					counts["split"]++
					if !emit(Case{Kind: "split", Size: ch, Init: a, End: b}) {
						return
					}
				}
			}
		}
		ok := genLists(listMaxA, int(listMaxA), 0, nil, func(l [][2]uint64) bool {
			counts["merged"]++
			return emit(Case{Kind: "merged", Ranges: l})
		})
		if !ok {
			return
		}
		ok = genLists(listMaxB, listLenB, 0, nil, func(l [][2]uint64) bool {
			counts["merged"]++
			return emit(Case{Kind: "merged", Ranges: l})
		})
		if !ok {
			return
		}
		for a := uint64(0); a <= 40; a++ {
			for b := a; b <= 48; b++ {
				counts["pred"]++
				if !emit(Case{Kind: "pred", Init: a, End: b}) {
					return
				}
			}
		}
		ok = genLists(9, 9, 0, nil, func(l [][2]uint64) bool {
			counts["dedupe"]++
			return emit(Case{Kind: "dedupe", Ranges: l})
		})
		if !ok {
			return
		}
		// two-digit bounds: the order must be numeric, not the order of the printed form
		ok = genLists(13, 3, 7, nil, func(l [][2]uint64) bool {
			counts["dedupe"]++
			return emit(Case{Kind: "dedupe", Ranges: l})
		})
		if !ok {
			return
		}
		for _, mb := range []uint64{1, 2, 3, 4, 7} {
			genLists(8, 8, 0, nil, func(l [][2]uint64) bool {
				counts["buckets"]++
				return emit(Case{Kind: "buckets", Size: mb, Ranges: l})
			})
		}
	}, Eval)
	ctx.Sample(Case{Kind: "seg", Size: 5, Init: 7, End: 23})
	ctx.Sample(Case{Kind: "split", Size: 4, Init: 3, End: 17})
	ctx.Sample(Case{Kind: "merged", Ranges: [][2]uint64{{0, 2}, {2, 5}, {6, 7}}})
	ctx.Cov["evaluations"] = st.Evaluations
	ctx.Cov["distinct_nontrivial"] = st.NonTrivial
	ctx.Cov["exhaustive"] = true
	ctx.Cov["by_kind"] = counts
	ctx.Cov["rule"] = fmt.Sprintf("every (size 1..%d, initial 0..%d, end initial+1..%d) with every index first-2..last+2 and every block 0..end+2, built directly and derived through WithInitialBlock / WithExclusiveEndBlock from a neighbouring bound, the segment boundaries and one segment away; Range.Split for all 0<=a<b<=64 x chunk 1..%d; Ranges.Merged for every sorted disjoint list over 0..%d and every list of <=%d ranges over 0..%d; MergedBuckets over 0..8 x max {1,2,3,4,7}; Range predicates (Contains, IsOutOfBounds, IsBelow, IsAbove, Size, Len, IsEmpty, Equals, Ranges.Contains) for every 0<=a<=b<=48 x every block; SortAndDedupe (then Merged) over every rearrangement-with-duplicates (reversal, all rotations, doubled) of every sorted disjoint list over 0..9 and of <=3 ranges over 7..13. Non-trivial: >=2 segments/chunks with an unaligned end, or >=3 ranges with an adjacent pair. Cases are distinct by construction of the enumeration.", maxSize, maxInit, maxEnd, maxSize, listMaxA, listLenB, listMaxB)
	ctx.Assume = []string{"reference is the set-cover definition of tiling written in the harness", "uint64 arithmetic far from overflow (blocks < 200)"}
	return ctx.Finish(core.JSONRecheck(ctx.Prop, Eval))
}
