package c14

import (
	"context"
	"fmt"
	"strings"
	"time"

	"github.com/RoaringBitmap/roaring/roaring64"
	"go.uber.org/zap"

	pbsubstreams "github.com/streamingfast/substreams/pb/sf/substreams/v1"
	"github.com/streamingfast/substreams/pipeline"
	"github.com/streamingfast/substreams/pipeline/exec"
	"github.com/streamingfast/substreams/reqctx"
	"github.com/streamingfast/substreams/storage/store"
	"github.com/streamingfast/substreams/wasm"

	"verifharness/core"
	"verifharness/modgen"
	"verifharness/storedrv"
)

// The staging is consumed by the pipeline, which builds one executor per staged module, layer by layer, except for block
// index modules whose index already exists for the segment. evalExecutors builds the executors of a graph through the real
// pipeline for every subset of "already computed" index modules and checks that (a) the graph's staging is left as it was,
// (b) every staged module has exactly one executor, in the group of its layer and in the layer's order, and the
// precomputed index modules have none.

type noopModule struct{}

func (noopModule) NewInstance(ctx context.Context) (wasm.Instance, error) { return nil, nil }
func (noopModule) ExecuteNewCall(ctx context.Context, call *wasm.Call, cachedInstance wasm.Instance, arguments []wasm.Argument, argValues map[string][]byte) (wasm.Instance, error) {
	return nil, nil
}
func (noopModule) Close(ctx context.Context) error { return nil }

const noopRuntime = "verif-noop"

func init() {
	wasm.RegisterModuleFactory(noopRuntime, wasm.ModuleFactoryFunc(func(ctx context.Context, wasmCode []byte, wasmCodeType string, registry *wasm.Registry) (wasm.Module, error) {
		return noopModule{}, nil
	}))
}

func stagingString(stages exec.ExecutionStages, skip map[string]bool) string {
	var l1 []string
	for _, stage := range stages {
		for _, layer := range stage {
			var l3 []string
			for _, mod := range layer {
				if !skip[mod.Name] {
					l3 = append(l3, mod.Name)
				}
			}
			l1 = append(l1, "["+strings.Join(l3, " ")+"]")
		}
	}
	return strings.Join(l1, " ")
}

func evalExecutors(cs Case) (*core.Fail, bool) {
	g := cs.Graph
	mods := g.Build()
	outName := modgen.Name(cs.Output)
	graph, err := exec.NewOutputModuleGraph(outName, cs.Prod, mods, 0)
	if err != nil {
		return nil, false // staging itself is judged by the other half
	}
	var indexMods []string
	for _, m := range graph.UsedModules() {
		if m.GetKindBlockIndex() != nil {
			indexMods = append(indexMods, m.Name)
		}
	}
	before := stagingString(graph.StagedUsedModules(), nil)
	desc := func(pre []string) string {
		return fmt.Sprintf("[%s] output=%s prod=%v, index modules already computed for the segment: %v", describe(g), outName, cs.Prod, pre)
	}
	ctx := reqctx.WithRequest(context.Background(), &reqctx.RequestDetails{Modules: mods, OutputModule: outName, ProductionMode: cs.Prod})
	ctx = reqctx.WithLogger(ctx, zap.NewNop())
	for mask := 0; mask < 1<<uint(len(indexMods)); mask++ {
		// a fresh graph per subset: the point is that building executors must not change it
		graph, err = exec.NewOutputModuleGraph(outName, cs.Prod, mods, 0)
		if err != nil {
			return nil, false
		}
		indices := map[string]map[string]*roaring64.Bitmap{}
		skip := map[string]bool{}
		var pre []string
		for i, n := range indexMods {
			if mask&(1<<uint(i)) != 0 {
				indices[n] = map[string]*roaring64.Bitmap{"k": roaring64.BitmapOf(1)}
				skip[n] = true
				pre = append(pre, n)
			}
		}
		sm := store.NewMap()
		for _, m := range graph.Stores() {
			ks := m.Kind.(*pbsubstreams.Module_KindStore_).KindStore
			cfg, err := store.NewConfig(m.Name, m.InitialBlock, "hash-"+m.Name, ks.UpdatePolicy, ks.ValueType, storedrv.MemStore())
			if err != nil {
				return core.Failf("harness:store-config", "%v", err), false
			}
			sm.Set(cfg.NewFullKV(zap.NewNop()))
		}
		pipe := pipeline.New(ctx, graph, &pipeline.Stores{StoreMap: sm}, indices, nil, wasm.NewRegistryWithRuntime(noopRuntime, nil), nil, 10, nil, nil, time.Minute)
		if err := pipe.Init(ctx); err != nil {
			return core.Failf("executors:init-error", "%s: %v", desc(pre), err), false
		}
		if err := pipe.BuildModuleExecutors(ctx); err != nil {
			return core.Failf("executors:build-error", "%s: %v", desc(pre), err), false
		}
		if after := stagingString(graph.StagedUsedModules(), nil); after != before {
			return core.Failf("executors:staging-changed", "%s: the staging was %s, after building the executors it is %s", desc(pre), before, after), len(indexMods) > 0
		}
		var groups []string
		for _, group := range pipe.ModuleExecutors {
			var names []string
			for _, e := range group {
				names = append(names, e.Name())
			}
			groups = append(groups, "["+strings.Join(names, " ")+"]")
		}
		want := stagingString(graph.StagedUsedModules(), skip)
		if got := strings.Join(groups, " "); got != want {
			return core.Failf("executors:do-not-follow-the-staging", "%s: executors %s, staging without the precomputed indices %s", desc(pre), got, want), len(indexMods) > 0
		}
	}
	return nil, len(indexMods) > 0
}
