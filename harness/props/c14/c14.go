// Package c14: execution stages respect every module dependency.
package c14

import (
	"fmt"
	"sort"
	"strings"
	"time"

	"github.com/streamingfast/substreams/manifest"
	pbsubstreams "github.com/streamingfast/substreams/pb/sf/substreams/v1"
	"github.com/streamingfast/substreams/pipeline/exec"

	"verifharness/core"
	"verifharness/modgen"
)

type Case struct {
	Graph  modgen.GraphSpec `json:"graph"`
	Output int              `json:"output"`
	Prod   bool             `json:"prod"`
	Family string           `json:"family,omitempty"`
	// the modules are declared from the last to the first (every reference points forward in the list)
	Reversed bool `json:"reversed,omitempty"`
	// pipeline half: build the executors of the staged graph through the real pipeline (executors.go)
	Executors bool `json:"executors,omitempty"`
}

func describe(g modgen.GraphSpec) string {
	var parts []string
	kinds := []string{"map", "store", "index"}
	srcs := []string{"", "block", "clock"}
	for i, m := range g {
		var ins []string
		if m.Params {
			ins = append(ins, "params")
		}
		if m.Source > 0 {
			ins = append(ins, srcs[m.Source])
		}
		for j, r := range m.Refs {
			switch r {
			case 1:
				ins = append(ins, modgen.Name(j))
			case 2:
				ins = append(ins, modgen.Name(j)+":deltas")
			}
		}
		f := ""
		if m.Filter >= 0 {
			f = " filter=" + modgen.Name(m.Filter)
		}
		parts = append(parts, fmt.Sprintf("%s:%s@%d(%s)%s", modgen.Name(i), kinds[m.Kind], m.Init, strings.Join(ins, ","), f))
	}
	return strings.Join(parts, " ")
}

// inputsExistAtInit: the statement's "a module is never given an initial block at which none of its inputs exists".
func inputsExistAtInit(g modgen.GraphSpec, i int) bool {
	m := g[i]
	if m.Source > 0 {
		return true
	}
	nin := 0
	if m.Params {
		nin++
	}
	for j, r := range m.Refs {
		if r != 0 {
			nin++
			if g[j].Init <= m.Init {
				return true
			}
		}
	}
	if m.Params && nin == 1 {
		return true // params-only module: runs on the clock
	}
	return false
}

func Eval(cs Case) (*core.Fail, bool) {
	if cs.Executors {
		return evalExecutors(cs)
	}
	g := cs.Graph
	mods := g.Build()
	if cs.Reversed {
		// declaration order is not part of a graph's meaning: list the modules from the last to the first, so that
		// every reference (input, block filter) points forward in the list
		for i, j := 0, len(mods.Modules)-1; i < j; i, j = i+1, j-1 {
			mods.Modules[i], mods.Modules[j] = mods.Modules[j], mods.Modules[i]
		}
	}
	if err := manifest.ValidateModules(mods); err != nil {
		return nil, false // not a valid graph: C17's domain
	}
	if _, err := manifest.NewModuleGraph(mods.Modules); err != nil {
		return nil, false
	}
	outName := modgen.Name(cs.Output)
	desc := func() string {
		return fmt.Sprintf("[%s] output=%s prod=%v%s", describe(g), outName, cs.Prod, map[bool]string{true: " modules declared in reverse order", false: ""}[cs.Reversed])
	}
	closure := g.Closure(cs.Output)
	wantErr := false
	for i := range closure {
		if !inputsExistAtInit(g, i) {
			wantErr = true
		}
	}
	graph, err := exec.NewOutputModuleGraph(outName, cs.Prod, mods, 0)
	if err != nil {
		if !wantErr {
			return core.Failf("spurious-staging-error", "%s: %v", desc(), err), false
		}
		return nil, false
	}
	if wantErr {
		return core.Failf("module-without-input-at-its-initial-block-accepted", "%s: staged although a needed module has no input at its initial block", desc()), false
	}
	stages := graph.StagedUsedModules()
	layerOf := map[string]int{}
	count := map[string]int{}
	li := 0
	storeSeen := false
	for si, st := range stages {
		if len(st) == 0 {
			return core.Failf("empty-stage", "%s: stage %d is empty", desc(), si), false
		}
		for k, layer := range st {
			if len(layer) == 0 {
				return core.Failf("empty-layer", "%s: stage %d layer %d is empty", desc(), si, k), false
			}
			stores := 0
			for _, m := range layer {
				layerOf[m.Name] = li
				count[m.Name]++
				if m.GetKindStore() != nil {
					stores++
				}
			}
			if stores != 0 && stores != len(layer) {
				return core.Failf("mixed-layer", "%s: stage %d layer %d mixes stores and non-stores: %s", desc(), si, k, fmtStages(stages)), false
			}
			if stores > 0 {
				storeSeen = true
				if k != len(st)-1 {
					return core.Failf("store-layer-does-not-close-its-stage", "%s: %s", desc(), fmtStages(stages)), false
				}
			}
			if stores == 0 && k == len(st)-1 && si != len(stages)-1 {
				return core.Failf("non-final-stage-without-store-layer", "%s: %s", desc(), fmtStages(stages)), false
			}
			li++
		}
	}
	// exactly the ancestor closure, each once
	for i := range closure {
		n := modgen.Name(i)
		if count[n] != 1 {
			return core.Failf("needed-module-not-staged-exactly-once", "%s: module %s staged %d times: %s", desc(), n, count[n], fmtStages(stages)), false
		}
	}
	for n := range count {
		idx := int(n[0] - 'a')
		if !closure[idx] {
			return core.Failf("unneeded-module-staged", "%s: module %s is not needed for the output: %s", desc(), n, fmtStages(stages)), false
		}
	}
	// every dependency strictly earlier
	for i := range closure {
		for _, d := range g.Deps(i) {
			if layerOf[modgen.Name(d)] >= layerOf[modgen.Name(i)] {
				return core.Failf("dependency-not-in-an-earlier-layer", "%s: %s (layer %d) reads %s (layer %d): %s", desc(), modgen.Name(i), layerOf[modgen.Name(i)], modgen.Name(d), layerOf[modgen.Name(d)], fmtStages(stages)), false
			}
		}
	}
	// UsedModules / Stores agree with the closure
	if len(graph.UsedModules()) != len(closure) {
		return core.Failf("used-modules", "%s: UsedModules has %d modules, closure %d", desc(), len(graph.UsedModules()), len(closure)), false
	}
	wantStores := 0
	for i := range closure {
		if g[i].Kind == modgen.KStore {
			wantStores++
		}
	}
	if len(graph.Stores()) != wantStores {
		return core.Failf("stores", "%s: Stores() has %d, closure has %d", desc(), len(graph.Stores()), wantStores), false
	}
	return nil, li >= 2 && storeSeen
}

func fmtStages(st exec.ExecutionStages) string {
	var ss []string
	for _, s := range st {
		var ls []string
		for _, l := range s {
			var ns []string
			for _, m := range l {
				ns = append(ns, m.Name)
			}
			sort.Strings(ns)
			ls = append(ls, strings.Join(ns, ","))
		}
		ss = append(ss, "["+strings.Join(ls, " | ")+"]")
	}
	return strings.Join(ss, " ")
}

var _ = pbsubstreams.ModuleKindMap

func hasIndex(g modgen.GraphSpec) bool {
	for _, m := range g {
		if m.Kind == modgen.KIndex {
			return true
		}
	}
	return false
}

func Run(ctx *core.Ctx) int {
	ctx.Level = "exploration"
	ctx.CaseTimeout = 30 * time.Second
	if ctx.Replay != "" {
		return core.RunReplay(ctx, Eval)
	}
	type tier struct {
		n int
		o modgen.EnumOpts
	}
	full := modgen.EnumOpts{Inits: []uint64{0, 1, 5}, Sources: []int{0, 1, 2}, Params: true, Deltas: true}
	tiers := []tier{
		{1, full}, {2, full}, {3, full},
	}
	if ctx.Thorough() {
		tiers = append(tiers, tier{4, modgen.EnumOpts{Inits: []uint64{0, 5}, Sources: []int{0, 1, 2}, Params: false, Deltas: true}})
		tiers = append(tiers, tier{5, modgen.EnumOpts{Inits: []uint64{0}, Sources: []int{0, 1}, Params: false, Deltas: false}})
	}
	graphs := 0
	st := core.ParallelEnum(ctx, func(emit func(Case) bool) {
		for _, t := range tiers {
			ok := modgen.EnumGraphs(t.n, t.o, func(g modgen.GraphSpec) bool {
				graphs++
				for out := range g {
					for _, prod := range []bool{false, true} {
						if !emit(Case{Graph: g, Output: out, Prod: prod}) {
							return false
						}
						if prod && !emit(Case{Graph: g, Output: out, Prod: prod, Reversed: true}) {
							return false
						}
						if prod && hasIndex(g) && !emit(Case{Graph: g, Output: out, Prod: prod, Executors: true}) {
							return false
						}
					}
				}
				return true
			})
			if !ok {
				return
			}
		}
		fams := modgen.Families()
		var names []string
		for n := range fams {
			names = append(names, n)
		}
		sort.Strings(names)
		for _, n := range names {
			g := fams[n]
			graphs++
			for out := range g {
				for _, prod := range []bool{false, true} {
					if !emit(Case{Graph: g, Output: out, Prod: prod, Family: n}) || !emit(Case{Graph: g, Output: out, Prod: prod, Family: n, Reversed: true}) || !emit(Case{Graph: g, Output: out, Prod: prod, Family: n, Executors: true}) {
						return
					}
				}
			}
		}
	}, Eval)
	ctx.Sample(map[string]any{"graph": describe(modgen.Families()["index8"]), "output": "h"})
	ctx.Sample(map[string]any{"graph": describe(modgen.Families()["mixed7"]), "output": "g"})
	ctx.Cov["evaluations"] = st.Evaluations
	ctx.Cov["graphs"] = graphs
	ctx.Cov["distinct_nontrivial"] = st.NonTrivial
	ctx.Cov["exhaustive"] = true
	ctx.Cov["rule"] = "pipeline half: for every graph with a block-index module (production mode) and every family graph, the executors are built through the real pipeline.New/Init/BuildModuleExecutors for every subset of index modules whose index already exists: the staging is left unchanged, every staged module has exactly one executor in the group and order of its layer, precomputed index modules have none. Staging half: module lists declared in dependency order and (production mode; families: both modes) in reverse order, where every reference points forward; every module list of n<=3 (thorough: + n=4 with inits {0,5} and no params, n=5 with one initial block, sources {none,block}, no deltas) over kind {map,store,index} x source {none,block,clock} x params-first x inputs subset of earlier modules (map input; store input get/deltas) x block filter {none, an earlier index} x initial block {0,1,5}; plus 6 families of 4-8 modules (ladder, diamond, wide store layer, index fan-out, mixed); every module as output, both modes. Only graphs accepted by the real ValidateModules + NewModuleGraph are judged. Oracle: independent DFS closure; staged exactly once; every input/filter dependency in a strictly earlier layer; layers homogeneous; store layers close their stage; staging errors exactly when a needed module has no input at its initial block; 30 s watchdog per case. Non-trivial: >=2 layers and a store."
	ctx.Assume = []string{"first streamable block 0", "wall-clock watchdog of 30 s per case (normal latency: microseconds)"}
	return ctx.Finish(core.JSONRecheck(ctx.Prop, Eval))
}
