// Package smoke: manual driver used while building the whole-system machinery (not a registered check).
package smoke

import (
	"fmt"
	"time"

	"verifharness/core"
	"verifharness/progs"
	"verifharness/script"
	"verifharness/sysrun"
)

func show(tag string, r *sysrun.Result) {
	fmt.Printf("== %s: err=%v wall=%s session=%v jobs=%v\n", tag, r.Err, r.Wall, r.Session, r.Jobs)
	for _, d := range r.Data {
		fmt.Printf("   %d %s %q\n", d.Num, d.ID, d.Payload)
	}
}

func Run(ctx *core.Ctx) int {
	defer sysrun.CleanupAll()
	var p *progs.Prog
	switch ctx.Args["prog"] {
	case "twostages":
		p = progs.TwoStages(1, 4, 6)
	case "index":
		p = progs.Index()
	case "clocksparse":
		p = progs.ClockSparse(2)
	case "policies":
		p = progs.Policies()
	case "samestage":
		p = progs.SameStage(1, 7, 3)
	default:
		p = progs.StoreMap(2, 3)
	}
	if ctx.Args["scenario"] == "latestore" {
		p = progs.StoreMap(20, 1)
		chain := sysrun.LinearChain{Head: 40, Final: 15}
		d := sysrun.Scratch("late")
		r := sysrun.Run(sysrun.Config{Modules: p.Modules, Output: p.Output, Prod: true, Seg: 5, Start: 2, Stop: 30, Final: 15, Dir: d, Source: chain, Timeout: 10 * time.Second})
		show("prod store init 20, request [2,30) final 15", r)
		fmt.Println(sysrun.ListFiles(d))
		return 0
	}
	if ctx.Args["scenario"] == "skipsource" {
		p = progs.ClockSparse(2)
		chain := sysrun.LinearChain{Head: 40, Final: 40}
		d := sysrun.Scratch("skip")
		r0 := sysrun.Run(sysrun.Config{Modules: p.Modules, Output: "sp", Prod: true, Seg: 5, Start: 9, Stop: 20, Dir: d, Source: chain})
		show("history: output sp prod [9,20)", r0)
		fmt.Println(sysrun.ListFiles(d))
		rec := &recSource{inner: chain}
		r := sysrun.Run(sysrun.Config{Modules: p.Modules, Output: "m", Prod: true, Seg: 5, Start: 9, Stop: 21, Final: 15, Dir: d, Source: rec})
		show("main: output m prod [9,21) final 15", r)
		fmt.Println("block source calls:", rec.calls)
		fmt.Println(sysrun.ListFiles(d))
		d2 := sysrun.Scratch("skip2")
		r2 := sysrun.Run(sysrun.Config{Modules: p.Modules, Output: "m", Prod: true, Seg: 5, Start: 9, Stop: 21, Final: 15, Dir: d2, Source: chain})
		show("main on empty cache", r2)
		return 0
	}
	chain := sysrun.LinearChain{Head: 40, Final: 40}
	d1 := sysrun.Scratch("lin")
	lin := sysrun.Run(sysrun.Config{Modules: p.Modules, Output: p.Output, Prod: false, Seg: 5, Start: 6, Stop: 20, Dir: d1, Source: chain})
	show("dev linear (back-fill stores)", lin)
	fmt.Println(sysrun.ListFiles(d1))
	d2 := sysrun.Scratch("prod")
	prod := sysrun.Run(sysrun.Config{Modules: p.Modules, Output: p.Output, Prod: true, Seg: 5, Start: 6, Stop: 20, Final: 13, Dir: d2, Source: chain})
	show("prod final=13", prod)
	fmt.Println(sysrun.ListFiles(d2))
	it, err := script.NewInterp(p.Modules, p.Output)
	if err != nil {
		fmt.Println("interp:", err)
		return 1
	}
	fmt.Println("== reference interpreter")
	for n := uint64(0); n < 20; n++ {
		r := it.Step(script.Blk{Num: n, ID: sysrun.BlockID(n)})
		if pl, ok := r.Payload[p.Output]; ok && n >= 6 {
			fmt.Printf("   %d %q\n", n, pl)
		}
	}
	return 0
}

type recSource struct {
	inner sysrun.Source
	calls []string
}

func (r *recSource) Steps(start, stop uint64, cursor string, tier2 bool) []sysrun.Step {
	r.calls = append(r.calls, fmt.Sprintf("[%d,%d) tier2=%v", start, stop, tier2))
	return r.inner.Steps(start, stop, cursor, tier2)
}
