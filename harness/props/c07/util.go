package c07

import "go.uber.org/zap"

func nopLogger() *zap.Logger { return zap.NewNop() }
