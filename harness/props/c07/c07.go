// Package c07: results do not depend on which cache files exist (crash and eviction tolerance).
package c07

import (
	"bytes"
	"context"
	"fmt"
	"io"
	"os"
	"path/filepath"
	"sort"
	"strings"
	"sync"
	"sync/atomic"
	"time"

	"github.com/klauspost/compress/zstd"
	"google.golang.org/protobuf/proto"

	"github.com/streamingfast/substreams/orchestrator/work"
	"github.com/streamingfast/substreams/pipeline/exec"
	"github.com/streamingfast/substreams/reqctx"
	pboutput "github.com/streamingfast/substreams/storage/execout/pb"
	pbindexes "github.com/streamingfast/substreams/storage/index/pb"
	"github.com/streamingfast/substreams/storage/store/marshaller"

	"verifharness/core"
	"verifharness/progs"
	"verifharness/sysrun"
	"verifharness/sysx"
)

type Shape struct {
	Prog  string `json:"prog"`
	Seg   uint64 `json:"seg"`
	Prod  bool   `json:"prod"`
	Start uint64 `json:"start"`
	Stop  uint64 `json:"stop"`
	Final int64  `json:"final"`
}

type Case struct {
	Shape Shape  `json:"shape"`
	Mask  uint64 `json:"mask"`           // bit i set = universe file i present in the initial cache
	Torn  int    `json:"torn,omitempty"` // 0 none; 1+i: file i also present as a torn .tmp leftover (next to it if its bit is set, instead of it otherwise)
	// environment deviation: the n-th object write of the request (tier1 and its segment jobs together) fails once
	// after consuming its body; the writers retry
	FailWrite int `json:"fail_write,omitempty"`
	// informational, filled in artefacts
	Present []string `json:"present,omitempty"`
}

var programs = map[string]func() *progs.Prog{
	"storemap-0-0":    func() *progs.Prog { return progs.StoreMap(0, 0) },
	"storemap-2-3":    func() *progs.Prog { return progs.StoreMap(2, 3) },
	"twostages-0-0-0": func() *progs.Prog { return progs.TwoStages(0, 0, 0) },
	"twostages-1-4-6": func() *progs.Prog { return progs.TwoStages(1, 4, 6) },
	"twostages-1-2-3": func() *progs.Prog { return progs.TwoStages(1, 2, 3) },
	"samestage-1-7-3": func() *progs.Prog { return progs.SameStage(1, 7, 3) },
	"samestage-0-3-0": func() *progs.Prog { return progs.SameStage(0, 3, 0) },
	"index":           func() *progs.Prog { return progs.Index() },
	"clocksparse2-2":  func() *progs.Prog { return progs.ClockSparse2(2) },
}

// universe of one shape: files of a complete run + the partial files of each store-stage job run alone
type universe struct {
	writes  int // object writes of the clean run
	shape   Shape
	prog    *progs.Prog
	names   []string          // sorted relative paths
	content map[string][]byte // raw bytes (compressed)
	decoded map[string]string // canonical decoded content
	stream  []sysx.Row        // the empty-cache stream
	always  map[string][]byte // files every run writes and that are not part of the subset space (package copy)
	err     error
}

var uniMu sync.Mutex
var universes = map[Shape]*universe{}

func cfgFor(s Shape, p *progs.Prog, dir string) sysrun.Config {
	head := s.Stop + 3
	chain := sysrun.LinearChain{Head: head, Final: head}
	var final uint64
	if s.Final >= 0 {
		final = uint64(s.Final)
		chain.Final = final
	}
	return sysrun.Config{Modules: p.Modules, Output: p.Output, Prod: s.Prod, Seg: s.Seg, Start: int64(s.Start), Stop: s.Stop, Final: final, Dir: dir, Source: chain, Timeout: 10 * time.Second}
}

func readAll(dir string) map[string][]byte {
	out := map[string][]byte{}
	for _, f := range sysrun.ListFiles(dir) {
		if strings.HasSuffix(f, ".tmp") {
			continue // in-flight write of an asynchronous writer
		}
		b, err := os.ReadFile(filepath.Join(dir, "test.store", f))
		if err == nil {
			out[f] = b
		}
	}
	return out
}

var zdec, _ = zstd.NewReader(nil, zstd.WithDecoderConcurrency(1))

// decode: canonical, order-independent rendering of a cache file ("" + error when it cannot be decoded).
func decode(name string, raw []byte) (string, error) {
	data := raw
	if strings.HasSuffix(name, ".zst") {
		r, err := zstd.NewReader(bytes.NewReader(raw), zstd.WithDecoderConcurrency(1))
		if err != nil {
			return "", err
		}
		defer r.Close()
		data, err = io.ReadAll(r)
		if err != nil {
			return "", fmt.Errorf("zstd: %w", err)
		}
	}
	base := strings.TrimSuffix(name, ".zst")
	switch {
	case strings.HasSuffix(base, ".kv"), strings.HasSuffix(base, ".partial"):
		sd, _, err := marshaller.Default().Unmarshal(data)
		if err != nil {
			return "", err
		}
		var kvs []string
		for k, v := range sd.Kv {
			kvs = append(kvs, fmt.Sprintf("%q=%q", k, v))
		}
		sort.Strings(kvs)
		pf := append([]string{}, sd.DeletePrefixes...)
		sort.Strings(pf)
		return fmt.Sprintf("kv{%s} prefixes%q", strings.Join(kvs, ","), pf), nil
	case strings.HasSuffix(base, ".output"):
		m := &pboutput.Map{}
		if err := m.UnmarshalFast(append([]byte{}, data...)); err != nil {
			return "", err
		}
		var items []string
		for id, it := range m.Kv {
			items = append(items, fmt.Sprintf("%010d/%s=%q", it.BlockNum, id, it.Payload))
		}
		sort.Strings(items)
		return "out{" + strings.Join(items, ",") + "}", nil
	case strings.HasSuffix(base, ".index"):
		m := &pbindexes.Map{}
		if err := proto.Unmarshal(data, m); err != nil {
			return "", err
		}
		var ks []string
		for k, v := range m.Indexes {
			ks = append(ks, fmt.Sprintf("%q=%x", k, v))
		}
		sort.Strings(ks)
		return "idx{" + strings.Join(ks, ",") + "}", nil
	}
	return fmt.Sprintf("raw:%d bytes", len(data)), nil
}

func buildUniverse(s Shape) *universe {
	uniMu.Lock()
	if u, ok := universes[s]; ok {
		uniMu.Unlock()
		return u
	}
	uniMu.Unlock()
	u := &universe{shape: s, content: map[string][]byte{}, decoded: map[string]string{}, always: map[string][]byte{}}
	mk := programs[s.Prog]
	if mk == nil {
		u.err = fmt.Errorf("unknown program %q", s.Prog)
		return u
	}
	u.prog = mk()
	dir := sysrun.Scratch("c07base")
	defer os.RemoveAll(dir)
	r := sysrun.Run(cfgFor(s, u.prog, dir))
	if r.Err != nil {
		u.err = fmt.Errorf("empty-cache run failed: %w", r.Err)
		return u
	}
	u.stream = sysx.NonEmpty(r.Data)
	u.writes = r.Writes
	full := readAll(dir)
	for name, b := range full {
		if strings.Contains(name, "substreams.partial.spkg") {
			u.always[name] = b
			continue
		}
		u.content[name] = b
	}
	// partial files: for every full store snapshot of the complete run, re-run the tier2 job that produces the
	// corresponding segment on a copy of the cache without that snapshot: the job leaves the partial file.
	g, err := exec.NewOutputModuleGraph(u.prog.Output, true, u.prog.Modules, 0)
	if err != nil {
		u.err = err
		return u
	}
	stageOf := map[string]int{}
	for si, st := range g.StagedUsedModules() {
		for _, l := range st {
			for _, m := range l {
				stageOf[g.ModuleHashes().Get(m.Name)] = si
			}
		}
	}
	// files a segment job writes when it runs to completion: every (stage, segment) job that contributed a file to the
	// complete run is re-run alone on a copy of the cache without the files that end inside its segment. This adds (a) the
	// partial snapshots (the job finds no full snapshot and leaves its partial) and (b) the files the complete run may or
	// may not contain: tier1 ends the request as soon as the output stream and the stores are complete and cancels the
	// jobs still running, so a last-segment job can be stopped between writing the output module's file and writing the
	// files of its other modules (an index, an intermediate map) - their presence after a clean run depends on timing.
	// Both kinds belong to the universe whatever the timing of this one clean run was, which also keeps masks stable.
	type job struct {
		stage    int
		segStart uint64
	}
	jobs := map[job]bool{}
	rangeOf := func(name string) (lo, hi uint64, kind string, ok bool) {
		parts := strings.Split(name, "/") // tag/<hash>/{states,outputs,index}/<a>-<b>.<ext>[.zst]
		if len(parts) != 4 {
			return 0, 0, "", false
		}
		var x, y uint64
		if n, _ := fmt.Sscanf(parts[3], "%010d-%010d", &x, &y); n != 2 {
			return 0, 0, "", false
		}
		if parts[2] == "states" {
			return y, x, "states", true // <end>-<start>
		}
		return x, y, parts[2], true // <start>-<end>
	}
	for name := range full {
		lo, hi, _, ok := rangeOf(name)
		parts := strings.Split(name, "/")
		if !ok || hi == 0 || hi <= lo {
			continue
		}
		st, known := stageOf[parts[1]]
		if !known {
			continue
		}
		jobs[job{st, (hi - 1) / s.Seg * s.Seg}] = true
	}
	var jobList []job
	for j := range jobs {
		jobList = append(jobList, j)
	}
	sort.Slice(jobList, func(a, b int) bool {
		if jobList[a].segStart != jobList[b].segStart {
			return jobList[a].segStart < jobList[b].segStart
		}
		return jobList[a].stage < jobList[b].stage
	})
	for _, j := range jobList {
		d2 := sysrun.Scratch("c07part")
		keep := map[string]bool{}
		for n := range full {
			_, hi, _, ok := rangeOf(n)
			if ok && hi > j.segStart && hi <= j.segStart+s.Seg {
				continue
			}
			keep[n] = true
		}
		sysrun.CopyTree(dir, d2, keep)
		cfg := cfgFor(s, u.prog, d2)
		ctx := reqctx.WithLogger(context.Background(), nopLogger())
		ctx = reqctx.WithTier2RequestParameters(ctx, sysrun.Tier2Params(&cfg))
		details := &reqctx.RequestDetails{Modules: u.prog.Modules, OutputModule: u.prog.Output, ProductionMode: true}
		req := work.NewRequest(ctx, details, j.stage, j.segStart)
		if err := sysrun.RunTier2(ctx, &cfg, req, nil); err == nil {
			for n, b := range readAll(d2) {
				if _, have := u.content[n]; have {
					continue
				}
				if _, have := u.always[n]; have || strings.Contains(n, "substreams.partial.spkg") {
					continue
				}
				u.content[n] = b
			}
		}
		os.RemoveAll(d2)
	}
	for n, b := range u.content {
		u.names = append(u.names, n)
		dec, err := decode(n, b)
		if err != nil {
			u.err = fmt.Errorf("cannot decode %s of the clean run: %w", n, err)
			return u
		}
		u.decoded[n] = dec
	}
	sort.Strings(u.names)
	uniMu.Lock()
	universes[s] = u
	uniMu.Unlock()
	return u
}

var runs int64

func short(n string) string {
	p := strings.Split(n, "/")
	if len(p) == 4 {
		return p[1][:6] + "/" + p[2] + "/" + strings.TrimSuffix(p[3], ".zst")
	}
	return n
}

func Eval(c Case) (*core.Fail, bool) {
	u := buildUniverse(c.Shape)
	if u.err != nil {
		return core.Failf("harness:universe", "%+v: %v", c.Shape, u.err), false
	}
	dir := sysrun.Scratch("c07")
	defer os.RemoveAll(dir)
	var present []string
	planted := ""
	write := func(rel string, b []byte) {
		p := filepath.Join(dir, "test.store", rel)
		os.MkdirAll(filepath.Dir(p), 0o755)
		os.WriteFile(p, b, 0o644)
	}
	for i, n := range u.names {
		if c.Mask&(1<<uint(i)) != 0 {
			write(n, u.content[n])
			present = append(present, short(n))
		}
		if c.Torn == i+1 {
			b := u.content[n]
			planted = n + ".xxtornxx.tmp"
			write(planted, b[:len(b)/2])
		}
	}
	desc := func() string {
		t := ""
		if planted != "" {
			t = " + torn leftover " + short(planted)
		}
		if c.FailWrite > 0 {
			t += fmt.Sprintf(" + object write #%d fails once after its body was consumed", c.FailWrite)
		}
		return fmt.Sprintf("%+v initial cache %v%s", c.Shape, present, t)
	}
	atomic.AddInt64(&runs, 1)
	cfg := cfgFor(c.Shape, u.prog, dir)
	cfg.FailWrite = c.FailWrite
	r := sysrun.Run(cfg)
	if r.Err != nil {
		key := "request-failed"
		if sysx.IsHang(r.Err) {
			key = "hang"
		}
		return core.Failf(key, "%s: %v", desc(), r.Err), true
	}
	if d := sysx.Diff(sysx.NonEmpty(r.Data), u.stream); d != "" {
		return core.Failf("stream-differs-from-empty-cache-run", "%s: %s\n    got   %s\n    clean %s", desc(), d, sysx.FmtRows(sysx.NonEmpty(r.Data)), sysx.FmtRows(u.stream)), true
	}
	after := readAll(dir)
	for n, b := range after {
		if n == planted || strings.HasSuffix(n, ".tmp") {
			continue // a .tmp file is an in-flight or abandoned write: the stores never take it for a complete file
		}
		if _, ok := u.always[n]; ok {
			continue
		}
		want, ok := u.decoded[n]
		if !ok {
			return core.Failf("file-outside-the-clean-runs-files", "%s: left %s behind, which neither a clean run nor a segment job produces", desc(), short(n)), true
		}
		got, err := decode(n, b)
		if err != nil {
			return core.Failf("undecodable-file-left-behind", "%s: %s: %v", desc(), short(n), err), true
		}
		if got != want {
			return core.Failf("file-content-differs-from-clean-run", "%s: %s is\n    %s\n  the clean run's is\n    %s", desc(), short(n), got, want), true
		}
	}
	if c.FailWrite > 0 {
		return nil, r.WriteFaultHit
	}
	full := uint64(1)<<uint(len(u.names)) - 1
	return nil, c.Mask != 0 && c.Mask != full
}

func Run(ctx *core.Ctx) int {
	ctx.Level = "fault_enumeration"
	ctx.Parallel = 48
	defer sysrun.CleanupAll()
	if ctx.Replay != "" {
		return core.RunReplay(ctx, Eval)
	}
	if spec := ctx.Args["universe"]; spec != "" { // debugging aid: --universe "prog seg prod start stop final"
		var sh Shape
		fmt.Sscan(spec, &sh.Prog, &sh.Seg, &sh.Prod, &sh.Start, &sh.Stop, &sh.Final)
		names, _, err := Universe(sh)
		fmt.Println(err)
		for i, n := range names {
			fmt.Printf("bit %d (%d) %s\n", i, 1<<uint(i), short(n))
		}
		return 0
	}
	shapes := []Shape{
		{Prog: "storemap-0-0", Seg: 5, Prod: true, Start: 6, Stop: 12, Final: 10},
		{Prog: "twostages-0-0-0", Seg: 5, Prod: true, Start: 2, Stop: 6, Final: 5},
		{Prog: "samestage-1-7-3", Seg: 4, Prod: false, Start: 9, Stop: 11, Final: -1},
		{Prog: "samestage-0-3-0", Seg: 4, Prod: false, Start: 9, Stop: 11, Final: -1}, // two stores of one stage that share a whole segment
		{Prog: "index", Seg: 4, Prod: true, Start: 5, Stop: 9, Final: 8},
		{Prog: "storemap-2-3", Seg: 3, Prod: true, Start: 4, Stop: 11, Final: 9},
		{Prog: "twostages-1-4-6", Seg: 5, Prod: true, Start: 7, Stop: 13, Final: 10},
	}
	maxFiles := 13
	if ctx.Thorough() {
		shapes = append(shapes,
			Shape{Prog: "clocksparse2-2", Seg: 4, Prod: true, Start: 5, Stop: 10, Final: 8},
			Shape{Prog: "index", Seg: 3, Prod: true, Start: 4, Stop: 10, Final: 9},
			Shape{Prog: "twostages-1-2-3", Seg: 2, Prod: true, Start: 3, Stop: 8, Final: 8}, // a stage starting later than the stores below it
		)
		maxFiles = 17
	}
	sizes := map[string]int{}
	capped := map[string]bool{}
	st := core.ParallelEnum(ctx, func(emit func(Case) bool) {
		for _, s := range shapes {
			u := buildUniverse(s)
			if u.err != nil {
				emit(Case{Shape: s})
				continue
			}
			n := len(u.names)
			sizes[fmt.Sprintf("%s/seg%d/[%d,%d)", s.Prog, s.Seg, s.Start, s.Stop)] = n
			total := uint64(1) << uint(n)
			limit := total
			if n > maxFiles {
				limit = uint64(1) << uint(maxFiles)
				capped[s.Prog] = true
			}
			for k := uint64(0); k < limit; k++ {
				mask := k
				if limit != total {
					mask = k ^ (k >> 1) // Gray-code order beyond the exhaustive bound
				}
				if !emit(Case{Shape: s, Mask: mask}) {
					return
				}
			}
			if limit != total {
				// beyond the exhaustive bound, additionally: every cache with at most 3 files present and every cache
				// with at most 3 files missing (bounded deviation from the empty and from the complete cache)
				var rec func(from, left int, mask uint64) bool
				rec = func(from, left int, mask uint64) bool {
					if mask>>uint(maxFiles) != 0 { // the others are in the Gray-code part
						if !emit(Case{Shape: s, Mask: mask}) || !emit(Case{Shape: s, Mask: (total - 1) &^ mask}) {
							return false
						}
					} else if mask != 0 {
						if !emit(Case{Shape: s, Mask: (total - 1) &^ mask}) {
							return false
						}
					}
					if left == 0 {
						return true
					}
					for i := from; i < n; i++ {
						if !rec(i+1, left-1, mask|1<<uint(i)) {
							return false
						}
					}
					return true
				}
				if !rec(0, 3, 0) {
					return
				}
			}
			// a failing object write: deviation <= 1 on the empty cache and on the caches holding one file class
			for n := 1; n <= u.writes+2; n++ {
				if !emit(Case{Shape: s, Mask: 0, FailWrite: n}) {
					return
				}
			}
			// torn leftovers: deviation <= 1
			for i := 0; i < n; i++ {
				for _, mask := range []uint64{total - 1, (total - 1) &^ (1 << uint(i)), 0} {
					if !emit(Case{Shape: s, Mask: mask, Torn: i + 1}) {
						return
					}
				}
			}
		}
	}, Eval)
	for _, s := range shapes[:1] {
		u := buildUniverse(s)
		var names []string
		for _, n := range u.names {
			names = append(names, short(n))
		}
		ctx.Sample(map[string]any{"shape": s, "universe": names, "subsets": "all 2^n as initial cache + one torn .tmp leftover per file"})
	}
	ctx.Cov["evaluations"] = st.Evaluations
	ctx.Cov["distinct_nontrivial"] = st.NonTrivial
	ctx.Cov["whole_system_runs"] = runs
	ctx.Cov["universe_sizes"] = sizes
	ex := true
	for range capped {
		ex = false
	}
	ctx.Cov["exhaustive"] = ex
	if !ex {
		ctx.Cov["capped_shapes"] = capped
	}
	ctx.Cov["rule"] = fmt.Sprintf("per (program, request shape): U = files of a complete run on an empty cache + every file each of its segment jobs writes when run alone to completion without the files of its segment (partial snapshots; files of non-output modules that a clean run may or may not contain because tier1 cancels running jobs when the stream is complete); every subset of U (all 2^n for n <= %d, beyond that the 2^%d subsets of the first files in Gray-code order plus every subset with <= 3 files present or <= 3 files missing) is laid out as the initial cache and the request is served on it; deviation <= 1: one file additionally present as a half-written <name>.<rand>.tmp leftover, next to or instead of the complete file. Oracle: the request completes; its stream equals the empty-cache run's; every file left behind has the name of a file of U and decodes (zstd, then store/exec-out/index codec) to the same content; no other file appears. Non-trivial: the subset is neither empty nor complete.", maxFiles, maxFiles)
	ctx.Assume = []string{
		"'equivalent to a clean run' is read as: no file differs from the clean run's file of the same name (a request that finds a later snapshot need not re-create earlier ones)",
		"files do not disappear during the request",
		"goroutine timing inside a run is not controlled",
	}
	return ctx.Finish(core.JSONRecheck(ctx.Prop, Eval))
}

// Universe exposes the universe of a shape to other checks (C05 explores the scheduler on these cache states).
func Universe(s Shape) (names []string, content map[string][]byte, err error) {
	u := buildUniverse(s)
	return u.names, u.content, u.err
}

// RegisterProgram lets other checks add programs to the shapes this package can build.
func HasProgram(name string) bool { _, ok := programs[name]; return ok }
