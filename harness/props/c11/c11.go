// Package c11: store size accounting is exact, so size limits are enforced consistently.
package c11

import (
	"encoding/json"
	"fmt"
	"runtime"
	"strings"
	"sync"

	"go.uber.org/zap"

	"github.com/streamingfast/substreams/storage/store"

	"verifharness/core"
	"verifharness/histx"
	"verifharness/props/c03"
	"verifharness/refmodel"
	"verifharness/storedrv"
	"verifharness/sysrun"
)

// Case: one of three kinds. hist: a store history (E4). chain: a C02-style squash chain. limit: an operation block under a 12-byte limit.
type Case struct {
	Kind   string          `json:"kind"`
	Combo  refmodel.Combo  `json:"combo"`
	Hist   []histx.Event   `json:"history,omitempty"`
	Blocks [][]refmodel.Op `json:"blocks,omitempty"`
	Pre    int             `json:"pre,omitempty"`
	Ops    []refmodel.Op   `json:"ops,omitempty"`
	Tree   *c03.Case       `json:"tree,omitempty"` // kind "pipeline": a fork history through the real fork resolver and pipeline
	// kind "reload": two entries with key lengths KL and value lengths VL, saved, loaded, then written to under a limit
	KL      [2]int `json:"klen,omitempty"`
	VL      [2]int `json:"vlen,omitempty"`
	Partial bool   `json:"partial,omitempty"`
}

var reloadCombo = refmodel.Combo{Policy: "set", VT: "bytes"}

// evalReload: the size a store reports after it has been through a snapshot file is the base of all later accounting.
// Two entries whose key and value lengths straddle the 1-byte/2-byte/3-byte length prefixes of the file format are
// written, saved and loaded (full snapshot or partial file); the loaded size must be the sum of key and value lengths;
// then, with the total limit set to exactly that size, a same-size overwrite must be accepted, a one-byte-longer one
// refused, and after shrinking one value and deleting the other key the size must still be exact.
func evalReload(cs Case) (*core.Fail, bool) {
	env := envPool.Get().(*storedrv.Env)
	defer envPool.Put(env)
	c := reloadCombo
	keys := [2]string{strings.Repeat("k", cs.KL[0]-1) + "0", strings.Repeat("k", cs.KL[1]-1) + "1"}
	vals := [2]string{strings.Repeat("v", cs.VL[0]), strings.Repeat("w", cs.VL[1])}
	want := uint64(len(keys[0]) + len(keys[1]) + len(vals[0]) + len(vals[1]))
	desc := fmt.Sprintf("partial=%v key lengths %v value lengths %v", cs.Partial, cs.KL, cs.VL)
	cfg := storedrv.NewConfig(c, 10, storedrv.MemStore())
	cfg.VerifSetLimits(want, 1<<20, 1<<20)
	block := []refmodel.Op{{T: "w", K: keys[0], V: vals[0], O: 0}, {T: "w", K: keys[1], V: vals[1], O: 1}}
	var src, loaded store.Store
	var file *store.FileInfo
	if cs.Partial {
		src, loaded, file = cfg.NewPartialKV(20, zap.NewNop()), cfg.NewPartialKV(20, zap.NewNop()), store.NewPartialFileInfo("st", 20, 30)
	} else {
		src, loaded, file = cfg.NewFullKV(zap.NewNop()), cfg.NewFullKV(zap.NewNop()), store.NewCompleteFileInfo("st", 10, 30)
	}
	if err := env.ApplyBlock(src, c, block); err != nil {
		return core.Failf("reload:write-error", "%s: content of exactly the limit refused: %v", desc, err), true
	}
	if src.SizeBytes() != want {
		return core.Failf("size-drift:write", "%s: SizeBytes()=%d before saving, want %d", desc, src.SizeBytes(), want), true
	}
	_, w, err := src.Save(30)
	if err == nil {
		err = w.Write(env.Ctx)
	}
	if err != nil {
		return core.Failf("reload:save-error", "%s: %v", desc, err), true
	}
	if err := loaded.Load(env.Ctx, file); err != nil {
		return core.Failf("reload:load-error", "%s: %v", desc, err), true
	}
	if _, real := histx.Raw(loaded); loaded.SizeBytes() != want || real != want {
		return core.Failf("size-drift:load", "%s: after save+load SizeBytes()=%d, content %d bytes, want %d", desc, loaded.SizeBytes(), real, want), true
	}
	// same-size overwrite at the limit: accepted
	if err := env.ApplyBlock(loaded, c, []refmodel.Op{{T: "w", K: keys[0], V: strings.Repeat("x", cs.VL[0]), O: 0}}); err != nil {
		return core.Failf("limit:spurious-too-big-after-load", "%s limit %d: same-size overwrite refused: %v", desc, want, err), true
	}
	if _, real := histx.Raw(loaded); loaded.SizeBytes() != real || real != want {
		return core.Failf("size-drift:write-after-load", "%s: after a same-size overwrite SizeBytes()=%d, content %d bytes, want %d", desc, loaded.SizeBytes(), real, want), true
	}
	// shrink one value to one byte and delete the other key
	if err := env.ApplyBlock(loaded, c, []refmodel.Op{{T: "w", K: keys[0], V: "z", O: 0}, {T: "d", K: keys[1], O: 1}}); err != nil {
		return core.Failf("limit:spurious-too-big-after-load", "%s: shrinking refused: %v", desc, err), true
	}
	want2 := uint64(len(keys[0]) + 1)
	if _, real := histx.Raw(loaded); loaded.SizeBytes() != real || real != want2 {
		return core.Failf("size-drift:write-after-load", "%s: after shrink+delete SizeBytes()=%d, content %d bytes, want %d", desc, loaded.SizeBytes(), real, want2), true
	}
	// grow back to the limit (accepted), then one byte more (refused)
	room := int(want - want2)
	if room > len(keys[1]) {
		if err := env.ApplyBlock(loaded, c, []refmodel.Op{{T: "w", K: keys[1], V: strings.Repeat("y", room-len(keys[1])), O: 0}}); err != nil {
			return core.Failf("limit:spurious-too-big-after-load", "%s limit %d: refilling to exactly the limit refused: %v", desc, want, err), true
		}
		err := env.ApplyBlock(loaded, c, []refmodel.Op{{T: "w", K: keys[0], V: "zz", O: 0}})
		if err == nil || !store.StoreAboveMaxSizeRegexp.MatchString(err.Error()) {
			return core.Failf("limit:late-or-missing-too-big-after-load", "%s limit %d: one byte above the limit accepted (err=%v, SizeBytes()=%d)", desc, want, err, loaded.SizeBytes()), true
		}
	}
	return nil, true
}

// evalPipeline runs a C03 fork history and keeps the size verdict only (the other oracles of that run are C03's).
func evalPipeline(cs Case) (*core.Fail, bool) {
	f, nt := c03.Eval(*cs.Tree)
	if f != nil && strings.HasPrefix(f.Key, "store-size-differs") {
		return core.Failf("size-drift:pipeline-undo", "%s", f.What), nt
	}
	return nil, nt
}

const limit = 12

func evalHist(cs Case) *core.Fail {
	x := &histx.Explorer{Env: storedrv.NewEnv(), Cfg: storedrv.NewConfig(cs.Combo, 0, storedrv.MemStore()), C: cs.Combo, Menu: histx.DefaultMenu(cs.Combo), Oracle: "size"}
	_, f := x.Build(cs.Hist)
	return f
}

var envPool = sync.Pool{New: func() any { return storedrv.NewEnv() }}

func evalChain(cs Case) (*core.Fail, bool) {
	env := envPool.Get().(*storedrv.Env)
	defer envPool.Put(env)
	c := cs.Combo
	cfg := storedrv.NewConfig(c, 10, storedrv.MemStore())
	n := len(cs.Blocks)
	for cut := uint(0); cut < 1<<uint(n-1); cut++ {
		for _, reload := range []bool{false, true} {
			m, err := env.SquashChain(cfg, c, cs.Blocks, cut, reload, 10)
			if err != nil {
				return core.Failf(c.Policy+":squash-error", "%s %v: %v", c, cs.Blocks, err), false
			}
			content, real := histx.Raw(m)
			if m.SizeBytes() != real {
				return core.Failf("size-drift:merge:"+c.Policy+":"+c.VT, "%s blocks %v segments %v reloadFull=%v: SizeBytes()=%d but keys+values total %d, content {%s}", c, fmtBlocks(cs.Blocks), storedrv.Segments(n, cut), reload, m.SizeBytes(), real, content), true
			}
		}
	}
	return nil, n >= 2
}

func fmtBlocks(bs [][]refmodel.Op) string {
	var s []string
	for _, b := range bs {
		s = append(s, storedrv.FmtOps(b))
	}
	return strings.Join(s, " | ")
}

// evalLimit: with a 12-byte total limit, Flush reports "became too big" exactly when the model's size exceeds the
// limit right after a create/update.
func evalLimit(cs Case) (*core.Fail, bool) {
	env := envPool.Get().(*storedrv.Env)
	defer envPool.Put(env)
	c := cs.Combo
	cfg := storedrv.NewConfig(c, 0, storedrv.MemStore())
	cfg.VerifSetLimits(limit, 1<<20, 1<<20)
	real := cfg.NewFullKV(zap.NewNop())
	ref := refmodel.NewStore(c)
	pre := refmodel.PreStates(c)[cs.Pre]
	if len(pre) > 0 {
		if err := env.ApplyBlock(real, c, pre); err != nil {
			return nil, false // pre-state itself above the limit: not a case
		}
		ref.ApplyBlock(pre)
	}
	size := func(m map[string]*refmodel.Val) int {
		t := 0
		for k, v := range m {
			t += len(k) + valLen(v)
		}
		return t
	}
	cur := size(ref.KV)
	ref.ApplyBlock(cs.Ops)
	wantErr := false
	for _, ch := range ref.Changes {
		if ch.Before != nil {
			cur -= len(ch.Key) + valLen(ch.Before)
		}
		if ch.After != nil {
			cur += len(ch.Key) + valLen(ch.After)
			if cur > limit {
				wantErr = true
				break
			}
		}
	}
	err := env.ApplyBlock(real, c, cs.Ops)
	gotErr := err != nil && store.StoreAboveMaxSizeRegexp.MatchString(err.Error())
	if err != nil && !gotErr {
		return core.Failf("limit:other-error", "%s pre %s ops %s: %v", c, storedrv.FmtOps(pre), storedrv.FmtOps(cs.Ops), err), false
	}
	if gotErr != wantErr {
		kind := "limit:spurious-too-big"
		if wantErr {
			kind = "limit:late-or-missing-too-big"
		}
		return core.Failf(kind, "%s limit %d pre %s ops %s: model exceeds limit=%v, Flush error=%v", c, limit, storedrv.FmtOps(pre), storedrv.FmtOps(cs.Ops), wantErr, err), true
	}
	if !gotErr {
		content, realSz := histx.Raw(real)
		if real.SizeBytes() != realSz {
			return core.Failf("size-drift:write", "%s pre %s ops %s: SizeBytes()=%d real %d {%s}", c, storedrv.FmtOps(pre), storedrv.FmtOps(cs.Ops), real.SizeBytes(), realSz, content), true
		}
	}
	return nil, wantErr || cur > limit/2
}

// valLen: length of the implementation's encoding of a model value; only used for byte policies and integers
// (canonical decimal text), see Run.
func valLen(v *refmodel.Val) int {
	if v.N != nil {
		return len(v.N.RatString())
	}
	return len(v.B)
}

func Eval(cs Case) (*core.Fail, bool) {
	switch cs.Kind {
	case "hist":
		return evalHist(cs), true
	case "chain":
		return evalChain(cs)
	case "limit":
		return evalLimit(cs)
	case "pipeline":
		return evalPipeline(cs)
	case "reload":
		return evalReload(cs)
	}
	return core.Failf("harness:kind", "unknown kind %q", cs.Kind), false
}

func Run(ctx *core.Ctx) int {
	ctx.Level = "model_checking"
	defer sysrun.CleanupAll()
	if ctx.Replay != "" {
		return core.RunReplay(ctx, Eval)
	}
	combos := refmodel.CoreCombos()
	depth := 5
	if ctx.Thorough() {
		combos = append(refmodel.AllCombos(), refmodel.Combo{Policy: "set_sum", VT: "bigfloat"})
		depth = 6
	}
	if v, ok := ctx.Args["depth"]; ok {
		fmt.Sscan(v, &depth)
	}
	// ---- E4: BFS over store histories, one explorer per combo, combos in parallel
	type out struct {
		c   refmodel.Combo
		res histx.Result
	}
	results := make([]out, len(combos))
	sem := make(chan struct{}, runtime.NumCPU())
	var wg sync.WaitGroup
	for i, c := range combos {
		wg.Add(1)
		sem <- struct{}{}
		go func(i int, c refmodel.Combo) {
			defer wg.Done()
			defer func() { <-sem }()
			var res histx.Result
			f := core.Safe("C11", func() *core.Fail {
				x := &histx.Explorer{Env: storedrv.NewEnv(), Cfg: storedrv.NewConfig(c, 0, storedrv.MemStore()), C: c, Menu: histx.DefaultMenu(c), Oracle: "size"}
				res = x.BFS(depth)
				return nil
			})
			if f != nil {
				res.Fail = f
			}
			results[i] = out{c, res}
		}(i, c)
	}
	wg.Wait()
	states, trans, undos, merges := 0, 0, 0, 0
	for _, o := range results {
		states += o.res.States
		trans += o.res.Transitions
		undos += o.res.Undos
		merges += o.res.Merges
		if o.res.Fail != nil {
			ctx.Violation(o.res.Fail, Case{Kind: "hist", Combo: o.c, Hist: o.res.FailHist}, int64(len(o.res.FailHist)))
		}
	}
	if len(results) > 0 {
		ctx.Sample(Case{Kind: "hist", Combo: results[3].c, Hist: results[3].res.Sample})
	}

	// ---- E1 side sweeps: squash chains (size after merges) and limit enforcement
	limitCombos := []refmodel.Combo{{Policy: "set", VT: "bytes"}, {Policy: "set_if_not_exists", VT: "string"}, {Policy: "append", VT: "bytes"}, {Policy: "add", VT: "int64"}, {Policy: "add", VT: "bigint"}, {Policy: "min", VT: "int64"}, {Policy: "max", VT: "bigint"}}
	st := core.ParallelEnum(ctx, func(emit func(Case) bool) {
		for _, c := range combos {
			alpha := refmodel.OpAlphabet(c, 2, []uint64{0})
			for _, a := range alpha {
				for _, b := range alpha {
					for _, d := range alpha {
						if !emit(Case{Kind: "chain", Combo: c, Blocks: [][]refmodel.Op{{a}, {b}, {d}}}) {
							return
						}
					}
				}
			}
		}
		// fork histories through the real fork resolver and pipeline (undo handling above the store: which recorded
		// deltas are reversed, and how often), size oracle after every step
		pn, p2, p3 := 5, 10, 7
		if ctx.Thorough() {
			pn, p2, p3 = 7, 13, 9
		}
		if !c03.EnumTrees(pn, p2, p3, func(t c03.Case) bool {
			if t.LibLag != 0 || t.Prod {
				return true
			}
			tc := t
			return emit(Case{Kind: "pipeline", Tree: &tc})
		}) {
			return
		}
		lens := []int{1, 2, 127, 128, 129, 300, 16383, 16384}
		for _, k0 := range lens[:6] {
			for _, k1 := range lens[:6] {
				for _, v0 := range lens {
					for _, v1 := range append([]int{0}, lens...) {
						for _, partial := range []bool{false, true} {
							if !emit(Case{Kind: "reload", KL: [2]int{k0, k1}, VL: [2]int{v0, v1}, Partial: partial}) {
								return
							}
						}
					}
				}
			}
		}
		for _, c := range limitCombos {
			alpha := refmodel.OpAlphabet(c, 3, []uint64{0, 1})
			for pre := range refmodel.PreStates(c) {
				ok := refmodel.Sequences(alpha, 3, func(seq []refmodel.Op) bool {
					return emit(Case{Kind: "limit", Combo: c, Pre: pre, Ops: seq})
				})
				if !ok {
					return
				}
				// the same with a mid-size value (5 bytes) in place of the long one: contents that sit exactly at the
				// 12-byte limit and are then updated in place (same size, smaller) must not be refused
				if c.VT == "bytes" || c.VT == "string" {
					mid := make([]refmodel.Op, len(alpha))
					for i, o := range alpha {
						if len(o.V) > 5 {
							o.V = "12345"
						}
						mid[i] = o
					}
					ok := refmodel.Sequences(mid, 3, func(seq []refmodel.Op) bool {
						return emit(Case{Kind: "limit", Combo: c, Pre: pre, Ops: seq})
					})
					if !ok {
						return
					}
				}
			}
		}
	}, Eval)
	ctx.Sample(Case{Kind: "limit", Combo: limitCombos[0], Pre: 1, Ops: refmodel.OpAlphabet(limitCombos[0], 3, []uint64{0, 1})[3:6]})
	ctx.Cov["states"] = states
	ctx.Cov["transitions"] = trans
	ctx.Cov["traces_validated_against_impl"] = trans
	ctx.Cov["undo_transitions"] = undos
	ctx.Cov["merge_transitions"] = merges
	ctx.Cov["bfs_depth"] = depth
	ctx.Cov["combos"] = len(combos)
	ctx.Cov["evaluations"] = st.Evaluations + int64(trans)
	ctx.Cov["distinct_nontrivial"] = st.NonTrivial + int64(undos+merges)
	ctx.Cov["exhaustive"] = true
	ctx.Cov["rule"] = fmt.Sprintf("E4: per (policy,value type), BFS to depth %d over the histories of one real FullKV, events {apply one of 4 blocks (create / size-changing update / delete_prefix+create / create-delete-update in one block), undo the top block with its recorded deltas, merge one of 3 partial stores built through the host interface, save+load}; states deduplicated on (sorted content, SizeBytes, reversible stack); in every state SizeBytes() == sum(len key + len value) over Iter. Every transition is executed by the real store (traces_validated_against_impl = transitions). Side sweeps (E1): every 3-block squash chain x cuts x reload with the same invariant; with a 12-byte limit (hook VerifSetLimits) every operation sequence <=3 from 3 pre-states: Flush says 'became too big' iff the model's size exceeds the limit right after a create/update; reload sweep: two entries with key lengths {1,2,127,128,129,300}^2 and value lengths {1,2,127,128,129,300,16383,16384} x {0,...} (the 1/2/3-byte length prefixes of the snapshot format), full and partial, saved and loaded: SizeBytes == keys+values after the load, a same-size overwrite at a limit equal to the content is accepted, shrink+delete keep the size exact, refilling to the limit is accepted and one byte more is refused. Non-trivial: undo/merge transitions; limit cases at or above half the limit. Pipeline level: the C03 fork histories (every arrival sequence of <=5 blocks, 2-branch ladders <=10, 3-branch ladders <=7; thorough 7/13/9) through the real fork resolver and Pipeline.ProcessBlock with SizeBytes == keys+values after every new/undo step.", depth)
	ctx.Assume = []string{
		"merge and save+load clear the reversible stack (squashing happens on final segments only)",
		"limit sweep restricted to byte policies and integer types whose text encoding is canonical",
	}
	_ = json.Marshal
	return ctx.Finish(core.JSONRecheck(ctx.Prop, Eval))
}
