// Package c18: hand-written cache file codecs are wire-compatible with their protobuf schemas.
package c18

import (
	"bytes"
	"fmt"
	"sort"
	"strings"

	"google.golang.org/protobuf/proto"
	"google.golang.org/protobuf/types/known/timestamppb"

	pboutput "github.com/streamingfast/substreams/storage/execout/pb"
	"github.com/streamingfast/substreams/storage/store/marshaller"
	pbstore "github.com/streamingfast/substreams/storage/store/marshaller/pb"

	"verifharness/core"
)

type Item struct {
	Num     uint64 `json:"num"`
	ID      string `json:"id"`
	TS      int    `json:"ts"` // index in tsAlpha
	Cursor  string `json:"cursor"`
	Payload int    `json:"payload"` // length
}

type KV struct {
	K []byte `json:"k"`
	V []byte `json:"v"`
}

type Case struct {
	Kind     string   `json:"kind"` // execout | store
	Items    []Item   `json:"items,omitempty"`
	NItems   int      `json:"nitems,omitempty"` // generated boundary counts
	Entries  []KV     `json:"entries,omitempty"`
	NEntries int      `json:"nentries,omitempty"`
	Prefixes []string `json:"prefixes,omitempty"`
	UTF8     bool     `json:"utf8,omitempty"`
	// kind "sequence": the files are encoded and decoded one after the other by the same goroutine, three rounds (a codec
	// that keeps a buffer, a pool or a cursor between calls must still write each file as if it were the first)
	Seq []Case `json:"sequence,omitempty"`
}

var tsAlpha = []*timestamppb.Timestamp{nil, {Seconds: 0, Nanos: 0}, {Seconds: 1, Nanos: 1}, {Seconds: -1, Nanos: 999_999_999}, {Seconds: 1 << 40}}
var numAlpha = []uint64{0, 1, 127, 128, 1 << 32, 1<<64 - 1}
var idAlpha = []string{"", "a", "é", strings.Repeat("i", 200)}
var payloadAlpha = []int{0, 1, 300, 20000}

func mkItem(it Item) *pboutput.Item {
	var ts *timestamppb.Timestamp
	if t := tsAlpha[it.TS]; t != nil {
		ts = &timestamppb.Timestamp{Seconds: t.Seconds, Nanos: t.Nanos}
	}
	p := make([]byte, it.Payload)
	for i := range p {
		p[i] = byte(i*7 + 0x80)
	}
	return &pboutput.Item{BlockNum: it.Num, BlockId: it.ID, Payload: p, Timestamp: ts, Cursor: it.Cursor}
}

func itemEq(a, b *pboutput.Item) bool {
	if a == nil || b == nil {
		return a == b
	}
	if a.BlockNum != b.BlockNum || a.BlockId != b.BlockId || a.Cursor != b.Cursor || !bytes.Equal(a.Payload, b.Payload) {
		return false
	}
	if (a.Timestamp == nil) != (b.Timestamp == nil) {
		return false
	}
	if a.Timestamp != nil && (a.Timestamp.Seconds != b.Timestamp.Seconds || a.Timestamp.Nanos != b.Timestamp.Nanos) {
		return false
	}
	return true
}

func evalExecout(cs Case) (*core.Fail, bool) {
	items := cs.Items
	if cs.NItems > 0 {
		items = nil
		for i := 0; i < cs.NItems; i++ {
			items = append(items, Item{Num: uint64(i) * 1000003, ID: fmt.Sprintf("id%05d", i), TS: i % len(tsAlpha), Cursor: []string{"", "c"}[i%2], Payload: []int{0, 1, 130}[i%3]})
		}
	}
	m := &pboutput.Map{Kv: map[string]*pboutput.Item{}}
	for _, it := range items {
		m.Kv[it.ID] = mkItem(it)
	}
	desc := fmt.Sprintf("items=%v", cs.Items)
	if cs.NItems > 0 {
		desc = fmt.Sprintf("%d generated items", cs.NItems)
	}
	// (a) fast encoder -> standard decoder (the file format is the Array message)
	fast, err := m.MarshalFast()
	if err != nil {
		return core.Failf("execout:marshalfast-error", "%s: %v", desc, err), false
	}
	arr := &pboutput.Array{}
	if err := proto.Unmarshal(fast, arr); err != nil {
		return core.Failf("execout:fast-bytes-not-decodable-by-proto", "%s: %v", desc, err), false
	}
	if len(arr.Items) != len(m.Kv) {
		return core.Failf("execout:fast->proto:item-count", "%s: decoded %d items want %d", desc, len(arr.Items), len(m.Kv)), false
	}
	for _, it := range arr.Items {
		if !itemEq(it, m.Kv[it.BlockId]) {
			return core.Failf("execout:fast->proto:item-differs", "%s: block id %q decoded as %v", desc, it.BlockId, it), false
		}
	}
	// (b) standard encoder -> fast decoder
	std := &pboutput.Array{}
	ids := make([]string, 0, len(m.Kv))
	for id := range m.Kv {
		ids = append(ids, id)
	}
	sort.Strings(ids)
	for _, id := range ids {
		std.Items = append(std.Items, m.Kv[id])
	}
	stdBytes, err := proto.Marshal(std)
	if err != nil {
		return core.Failf("execout:proto-marshal-error", "%s: %v", desc, err), false
	}
	for name, data := range map[string][]byte{"proto->fast": stdBytes, "fast->fast": fast} {
		back := &pboutput.Map{}
		if err := back.UnmarshalFast(append([]byte{}, data...)); err != nil {
			return core.Failf("execout:"+name+":unmarshalfast-error", "%s: %v", desc, err), false
		}
		if len(back.Kv) != len(m.Kv) {
			return core.Failf("execout:"+name+":item-count", "%s: decoded %d items want %d", desc, len(back.Kv), len(m.Kv)), false
		}
		for id, it := range m.Kv {
			if !itemEq(back.Kv[id], it) {
				return core.Failf("execout:"+name+":item-differs", "%s: block id %q decoded as %v want %v", desc, id, back.Kv[id], it), false
			}
		}
	}
	multi := false
	for _, it := range items {
		if it.Payload >= 128 || it.Num >= 128 || len(it.ID) >= 128 {
			multi = true
		}
	}
	return nil, len(items) >= 2 || multi
}

func storeEq(a *marshaller.StoreData, kv map[string][]byte, prefixes []string, checkPrefixes bool) string {
	if len(a.Kv) != len(kv) {
		return fmt.Sprintf("%d keys want %d", len(a.Kv), len(kv))
	}
	for k, v := range kv {
		g, ok := a.Kv[k]
		if !ok || !bytes.Equal(g, v) {
			return fmt.Sprintf("key %q = %q (found=%v) want %q", k, g, ok, v)
		}
	}
	if checkPrefixes {
		if fmt.Sprintf("%q", a.DeletePrefixes) != fmt.Sprintf("%q", prefixes) && !(len(a.DeletePrefixes) == 0 && len(prefixes) == 0) {
			return fmt.Sprintf("prefixes %q want %q", a.DeletePrefixes, prefixes)
		}
	}
	return ""
}

func evalStore(cs Case) (*core.Fail, bool) {
	kv := map[string][]byte{}
	entries := cs.Entries
	if cs.NEntries > 0 {
		for i := 0; i < cs.NEntries; i++ {
			entries = append(entries, KV{[]byte(fmt.Sprintf("key%06d", i)), bytes.Repeat([]byte{byte(i)}, i%200)})
		}
	}
	var size uint64
	for _, e := range entries {
		if _, dup := kv[string(e.K)]; dup {
			continue
		}
		kv[string(e.K)] = e.V
		size += uint64(len(e.K) + len(e.V))
	}
	desc := fmt.Sprintf("entries=%q prefixes=%q", cs.Entries, cs.Prefixes)
	if cs.NEntries > 0 {
		desc = fmt.Sprintf("%d generated entries prefixes=%q", cs.NEntries, cs.Prefixes)
	}
	data := &marshaller.StoreData{Kv: kv, DeletePrefixes: cs.Prefixes}
	ms := []struct {
		name     string
		m        marshaller.Marshaller
		prefixes bool
		needUTF8 bool
	}{
		{"vtproto", &marshaller.VTproto{}, true, false},
		{"proto", &marshaller.Proto{}, true, true},
		{"protoingfast", &marshaller.ProtoingFast{}, true, true}, // decodes with proto.Unmarshal
		{"binary", &marshaller.Binary{}, false, false},           // by its own TODO does not encode prefixes
	}
	encoded := map[string][]byte{}
	for _, x := range ms {
		if x.needUTF8 && !cs.UTF8 {
			continue
		}
		b, err := x.m.Marshal(data)
		if err != nil {
			return core.Failf("store:"+x.name+":marshal-error", "%s: %v", desc, err), false
		}
		encoded[x.name] = b
		back, sz, err := x.m.Unmarshal(append([]byte{}, b...))
		if err != nil {
			return core.Failf("store:"+x.name+":unmarshal-own-bytes", "%s: %v", desc, err), false
		}
		if d := storeEq(back, kv, cs.Prefixes, x.prefixes); d != "" {
			return core.Failf("store:"+x.name+":roundtrip-differs", "%s: %s", desc, d), false
		}
		if x.name == "vtproto" && sz != size {
			return core.Failf("store:vtproto:reported-size", "%s: Unmarshal reported size %d, keys+values total %d", desc, sz, size), false
		}
	}
	if cs.UTF8 {
		// fast encoders -> standard decoder
		for _, name := range []string{"vtproto", "protoingfast"} {
			sd := &pbstore.StoreData{}
			if err := proto.Unmarshal(encoded[name], sd); err != nil {
				return core.Failf("store:"+name+":not-decodable-by-proto", "%s: %v", desc, err), false
			}
			if d := storeEq(&marshaller.StoreData{Kv: sd.Kv, DeletePrefixes: sd.DeletePrefixes}, kv, cs.Prefixes, true); d != "" {
				return core.Failf("store:"+name+"->proto:differs", "%s: %s", desc, d), false
			}
		}
		// standard encoder -> fast decoder, with the reported size
		back, sz, err := (&marshaller.VTproto{}).Unmarshal(append([]byte{}, encoded["proto"]...))
		if err != nil {
			return core.Failf("store:proto->vtproto:error", "%s: %v", desc, err), false
		}
		if d := storeEq(back, kv, cs.Prefixes, true); d != "" {
			return core.Failf("store:proto->vtproto:differs", "%s: %s", desc, d), false
		}
		if sz != size {
			return core.Failf("store:proto->vtproto:reported-size", "%s: reported %d want %d", desc, sz, size), false
		}
	}
	multi := false
	for _, e := range entries {
		if len(e.K) >= 128 || len(e.V) >= 128 {
			multi = true
		}
	}
	return nil, len(kv) >= 2 || multi
}

func Eval(cs Case) (*core.Fail, bool) {
	switch cs.Kind {
	case "execout":
		return evalExecout(cs)
	case "store":
		return evalStore(cs)
	case "sequence":
		for round := 0; round < 3; round++ {
			for i, sub := range cs.Seq {
				if sub.Kind == "sequence" {
					return core.Failf("harness:kind", "nested sequence"), false
				}
				if f, _ := Eval(sub); f != nil {
					f.Key = "after-other-files:" + f.Key
					f.What = fmt.Sprintf("file %d of the sequence (round %d; every file of the sequence passes when it is the first call): %s", i+1, round+1, f.What)
					return f, true
				}
			}
		}
		return nil, len(cs.Seq) >= 2
	}
	return core.Failf("harness:kind", "unknown kind %q", cs.Kind), false
}

func Run(ctx *core.Ctx) int {
	ctx.Level = "exploration"
	if ctx.Replay != "" {
		return core.RunReplay(ctx, Eval)
	}
	var all []Item
	for _, n := range numAlpha {
		for _, id := range idAlpha {
			for ts := range tsAlpha {
				for _, c := range []string{"", "c"} {
					for _, p := range payloadAlpha {
						all = append(all, Item{n, id, ts, c, p})
					}
				}
			}
		}
	}
	// reduced alphabet for the 2nd and 3rd item of a map
	var red []Item
	for _, n := range []uint64{0, 128, 1<<64 - 1} {
		for _, id := range idAlpha {
			for _, ts := range []int{0, 3} {
				red = append(red, Item{n, id, ts, []string{"", "c"}[ts%2], []int{0, 300}[int(n%2)]})
			}
		}
	}
	utf8Keys := [][]byte{[]byte("a"), []byte("é"), []byte("ab"), []byte(strings.Repeat("k", 127)), []byte(strings.Repeat("k", 128)), []byte(strings.Repeat("k", 16384))}
	binKeys := [][]byte{{0x00}, {0x80}, {0xfe, 0xff}, {'a', 0x00}}
	vals := [][]byte{{}, {0x00}, {0xff}, []byte("ab"), bytes.Repeat([]byte{0x80}, 127), bytes.Repeat([]byte{0x81}, 128), bytes.Repeat([]byte{0x82}, 16384)}
	prefixLists := [][]string{nil, {""}, {"a"}, {"a", "é"}, {strings.Repeat("p", 200)}}
	counts := map[string]int{}
	st := core.ParallelEnum(ctx, func(emit func(Case) bool) {
		for _, a := range all {
			counts["execout"]++
			if !emit(Case{Kind: "execout", Items: []Item{a}}) {
				return
			}
		}
		for _, a := range all {
			if a.Payload == 20000 && !ctx.Thorough() {
				continue
			}
			for _, b := range red {
				if a.ID == b.ID {
					continue
				}
				counts["execout"]++
				if !emit(Case{Kind: "execout", Items: []Item{a, b}}) {
					return
				}
			}
		}
		for _, a := range red {
			for _, b := range red {
				for _, c := range red {
					if a.ID == b.ID || a.ID == c.ID || b.ID == c.ID {
						continue
					}
					counts["execout"]++
					if !emit(Case{Kind: "execout", Items: []Item{a, b, c}}) {
						return
					}
				}
			}
		}
		for _, n := range []int{0, 1, 2, 1000, 5000} {
			counts["execout"]++
			emit(Case{Kind: "execout", NItems: n})
		}
		// store data: maps of <=3 entries, UTF-8 keys (all decoders) and binary keys (self round-trips)
		for _, set := range []struct {
			keys [][]byte
			utf8 bool
		}{{utf8Keys, true}, {binKeys, false}} {
			var rec func(from int, cur []KV) bool
			rec = func(from int, cur []KV) bool {
				for _, pl := range prefixLists {
					counts["store"]++
					if !emit(Case{Kind: "store", Entries: append([]KV{}, cur...), Prefixes: pl, UTF8: set.utf8}) {
						return false
					}
				}
				if len(cur) == 3 {
					return true
				}
				for k := from; k < len(set.keys); k++ {
					for _, v := range vals {
						if !rec(k+1, append(cur, KV{set.keys[k], v})) {
							return false
						}
					}
				}
				return true
			}
			if !rec(0, nil) {
				return
			}
		}
		for _, n := range []int{1000, 5000} {
			counts["store"]++
			emit(Case{Kind: "store", NEntries: n, Prefixes: []string{"a", "b"}, UTF8: true})
		}
		// sequences of files through the same codecs: every ordered pair and triple of shapes of different sizes
		var shapes [2][]Case
		for _, n := range []int{1, 2, 3, 7, 50, 100} {
			shapes[0] = append(shapes[0], Case{Kind: "execout", NItems: n})
		}
		shapes[0] = append(shapes[0], Case{Kind: "execout"}, Case{Kind: "execout", Items: []Item{all[len(all)-2]}})
		for _, n := range []int{1, 2, 3, 7, 50} {
			for _, pl := range [][]string{nil, {"a", "é"}} {
				shapes[1] = append(shapes[1], Case{Kind: "store", NEntries: n, Prefixes: pl, UTF8: true})
			}
		}
		shapes[1] = append(shapes[1], Case{Kind: "store", UTF8: true}, Case{Kind: "store", Entries: []KV{{utf8Keys[4], vals[6]}}, Prefixes: []string{strings.Repeat("p", 200)}, UTF8: true})
		for _, sh := range shapes {
			for _, a := range sh {
				for _, b := range sh {
					counts["sequence"]++
					if !emit(Case{Kind: "sequence", Seq: []Case{a, b}}) {
						return
					}
					for _, c := range sh {
						counts["sequence"]++
						if !emit(Case{Kind: "sequence", Seq: []Case{a, b, c}}) {
							return
						}
					}
				}
			}
		}
	}, Eval)
	ctx.Sample(Case{Kind: "execout", Items: []Item{all[5], red[7]}})
	ctx.Sample(Case{Kind: "store", Entries: []KV{{utf8Keys[1], vals[0]}, {utf8Keys[3], vals[5]}}, Prefixes: []string{"a", "é"}, UTF8: true})
	ctx.Cov["evaluations"] = st.Evaluations
	ctx.Cov["distinct_nontrivial"] = st.NonTrivial
	ctx.Cov["exhaustive"] = true
	ctx.Cov["by_kind"] = counts
	ctx.Cov["rule"] = "exec-out: every single item over block number {0,1,127,128,2^32,2^64-1} x id {'', a, é, 200 bytes} x timestamp {absent,0,(1,1),(-1,999999999),2^40} x cursor {'',c} x payload length {0,1,300,20000}; every pair (full alphabet x reduced alphabet of 24, distinct ids), every triple over the reduced alphabet; 0/1/2/1000/5000 generated items. Oracles: MarshalFast bytes decode with proto.Unmarshal as Array to the same items; proto.Marshal(Array) decodes with UnmarshalFast to the same map; fast round trip. Store data: every map of <=3 entries over 6 UTF-8 keys (lengths up to 16384) or 4 binary keys x 7 values (empty, 0x00, 0xff, 127/128/16384 bytes) x 5 deleted-prefix lists; VTproto, Proto, ProtoingFast, Binary each read back what they wrote (Binary: kv only); VTproto/ProtoingFast bytes decode with proto.Unmarshal; proto.Marshal bytes decode with VTproto.Unmarshal whose reported size == sum(len k + len v). Sequences: every ordered pair and triple over 8 exec-out shapes (0..100 items) and over 12 store shapes (0..50 entries x prefix lists), encoded and decoded one after the other by one goroutine, three rounds, each file judged by the oracles above (codec state kept between calls). Non-trivial: >=2 items/entries or a multi-byte varint length."
	ctx.Assume = []string{"non-UTF-8 keys are only used for self round-trips of VTproto and Binary: the schema field is a proto3 string and the standard library rejects invalid UTF-8 by design"}
	return ctx.Finish(core.JSONRecheck(ctx.Prop, Eval))
}
