// Package c09: replaying a store's cached operation log reproduces its deltas and state (full and partial stores).
package c09

import (
	"fmt"
	"sort"
	"strings"
	"sync"

	"go.uber.org/zap"
	"google.golang.org/protobuf/proto"

	pbsubstreams "github.com/streamingfast/substreams/pb/sf/substreams/v1"
	"github.com/streamingfast/substreams/storage/store"

	"verifharness/core"
	"verifharness/refmodel"
	"verifharness/storedrv"
)

type Case struct {
	Combo  refmodel.Combo  `json:"combo"`
	Blocks [][]refmodel.Op `json:"blocks"`
}

type worker struct {
	env  *storedrv.Env
	cfgs map[string]*store.Config
}

var workerPool = sync.Pool{New: func() any { return &worker{env: storedrv.NewEnv(), cfgs: map[string]*store.Config{}} }}

func (w *worker) cfg(c refmodel.Combo) *store.Config {
	if cfg, ok := w.cfgs[c.String()]; ok {
		return cfg
	}
	cfg := storedrv.NewConfig(c, 10, storedrv.MemStore())
	w.cfgs[c.String()] = cfg
	return cfg
}

func fmtBlocks(bs [][]refmodel.Op) string {
	var s []string
	for _, b := range bs {
		s = append(s, storedrv.FmtOps(b))
	}
	return strings.Join(s, " | ")
}

func fmtDeltas(ds []*pbsubstreams.StoreDelta) string {
	var s []string
	for _, d := range ds {
		s = append(s, fmt.Sprintf("%s %q@%d %q->%q", d.Operation, d.Key, d.Ordinal, d.OldValue, d.NewValue))
	}
	return "[" + strings.Join(s, ", ") + "]"
}

func rawContent(st store.Iterable) string {
	var kvs []string
	st.Iter(func(k string, v []byte) error { kvs = append(kvs, fmt.Sprintf("%q=%q", k, v)); return nil })
	sort.Strings(kvs)
	return strings.Join(kvs, " ")
}

func Eval(cs Case) (*core.Fail, bool) {
	w := workerPool.Get().(*worker)
	defer workerPool.Put(w)
	c := cs.Combo
	pol := c.Policy
	cfg := w.cfg(c)
	desc := func() string { return fmt.Sprintf("%s blocks %s", c, fmtBlocks(cs.Blocks)) }

	// ---- full store: original execution vs replay of the recorded log, block by block
	orig := cfg.NewFullKV(zap.NewNop())
	repl := cfg.NewFullKV(zap.NewNop())
	ref := refmodel.NewStore(c)
	nontrivial := false
	var logs [][]byte
	for i, b := range cs.Blocks {
		preNonEmpty := orig.Length() > 0
		if err := w.env.ApplyBlock(orig, c, b); err != nil {
			return core.Failf(pol+":exec-error", "%s block %d: %v", desc(), i, err), false
		}
		ref.ApplyBlock(b)
		log := orig.ReadOps()
		logs = append(logs, log)
		repl.Reset() // pipeline.resetStores() runs before every block
		if err := repl.ApplyOps(log); err != nil {
			return core.Failf(pol+":replay-error", "%s block %d: ApplyOps: %v", desc(), i, err), false
		}
		od, rd := orig.GetDeltas(), repl.GetDeltas()
		if len(od) != len(rd) {
			return core.Failf(pol+":full:delta-count", "%s block %d: executed %s replayed %s", desc(), i, fmtDeltas(od), fmtDeltas(rd)), false
		}
		for j := range od {
			if !proto.Equal(od[j], rd[j]) {
				return core.Failf(pol+":full:delta-differs", "%s block %d delta %d: executed %s replayed %s", desc(), i, j, fmtDeltas(od), fmtDeltas(rd)), false
			}
		}
		if a, b := rawContent(orig), rawContent(repl); a != b {
			return core.Failf(pol+":full:content-differs", "%s after block %d: executed {%s} replayed {%s}", desc(), i, a, b), false
		}
		if orig.SizeBytes() != repl.SizeBytes() {
			return core.Failf(pol+":full:size-differs", "%s after block %d: executed %d replayed %d", desc(), i, orig.SizeBytes(), repl.SizeBytes()), false
		}
		// a replay of the log must also leave a log that replays again (cached output re-written by a later job)
		if relog := repl.ReadOps(); !sameOps(log, relog) {
			return core.Failf(pol+":full:relog-differs", "%s block %d: log read back after replay differs from the log replayed", desc(), i), false
		}
		if preNonEmpty && (len(b) >= 2 || hasDelete(b)) {
			nontrivial = true
		}
	}
	got, _, perr := storedrv.Content(repl, c)
	if perr != nil {
		return core.Failf(pol+":unparsable", "%s: %v", desc(), perr), false
	}
	if d := storedrv.DiffContent(got, ref); d != "" {
		return core.Failf(pol+":full:replayed-differs-from-model", "%s: %s", desc(), d), false
	}

	// ---- the same through the production entry point exec.RunModule (execution and cached branch)
	if f := evalRunModule(cs, cfg); f != nil {
		return f, nontrivial
	}

	// ---- partial store: executed vs replayed, then both saved, loaded and merged onto the same base
	po := cfg.NewPartialKV(10, zap.NewNop())
	pr := cfg.NewPartialKV(10, zap.NewNop())
	for i, b := range cs.Blocks {
		if err := w.env.ApplyBlock(po, c, b); err != nil {
			return core.Failf(pol+":partial-exec-error", "%s block %d: %v", desc(), i, err), false
		}
		log := po.ReadOps()
		pr.Reset()
		if err := pr.ApplyOps(log); err != nil {
			return core.Failf(pol+":partial-replay-error", "%s block %d: %v", desc(), i, err), false
		}
	}
	if a, b := rawContent(po), rawContent(pr); a != b {
		return core.Failf(pol+":partial:content-differs", "%s: executed {%s} replayed {%s}", desc(), a, b), false
	}
	if po.SizeBytes() != pr.SizeBytes() {
		return core.Failf(pol+":partial:size-differs", "%s: executed %d replayed %d", desc(), po.SizeBytes(), pr.SizeBytes()), false
	}
	if a, b := sortedCopy(po.DeletedPrefixes), sortedCopy(pr.DeletedPrefixes); fmt.Sprintf("%q", a) != fmt.Sprintf("%q", b) {
		return core.Failf("partial:deleted-prefixes-lost-on-replay", "%s: executed partial has DeletedPrefixes %q, replayed partial has %q", desc(), a, b), nontrivial
	}
	// merged onto a non-empty base
	for _, base := range refmodel.PreStates(c)[1:] {
		var merged [2]string
		for vi, p := range []*store.PartialKV{po, pr} {
			full := cfg.NewFullKV(zap.NewNop())
			if err := w.env.ApplyBlock(full, c, base); err != nil {
				return core.Failf(pol+":base-error", "%s: %v", desc(), err), false
			}
			full.Reset() // the squasher only merges into stores that were loaded or merged, never into one holding a block's pending operations
			_, fw, err := p.Save(10 + uint64(len(cs.Blocks)))
			if err != nil {
				return core.Failf(pol+":partial-save", "%s: %v", desc(), err), false
			}
			if err := fw.Write(w.env.Ctx); err != nil {
				return core.Failf(pol+":partial-save", "%s: %v", desc(), err), false
			}
			ld := cfg.NewPartialKV(10, zap.NewNop())
			if err := ld.Load(w.env.Ctx, store.NewPartialFileInfo("st", 10, 10+uint64(len(cs.Blocks)))); err != nil {
				return core.Failf(pol+":partial-load", "%s: %v", desc(), err), false
			}
			if err := full.Merge(ld); err != nil {
				return core.Failf(pol+":merge-error", "%s: %v", desc(), err), false
			}
			merged[vi] = rawContent(full)
		}
		if merged[0] != merged[1] {
			return core.Failf(pol+":partial:merged-differs", "%s base %s: executed-partial merge {%s} replayed-partial merge {%s}", desc(), storedrv.FmtOps(base), merged[0], merged[1]), nontrivial
		}
	}
	return nil, nontrivial
}

func sameOps(a, b []byte) bool {
	return string(a) == string(b)
}

func sortedCopy(in []string) []string {
	out := append([]string{}, in...)
	sort.Strings(out)
	return out
}

func hasDelete(b []refmodel.Op) bool {
	for _, o := range b {
		if o.T == "d" {
			return true
		}
	}
	return false
}

func Run(ctx *core.Ctx) int {
	ctx.Level = "exploration"
	if ctx.Replay != "" {
		return core.RunReplay(ctx, Eval)
	}
	combos := refmodel.CoreCombos()
	nblocks, maxOps := 2, 2
	ords := []uint64{0, 1}
	if ctx.Thorough() {
		combos = append(refmodel.AllCombos(), refmodel.Combo{Policy: "set_sum", VT: "bigfloat"})
		ords = []uint64{0, 1, 2}
	}
	st := core.ParallelEnum(ctx, func(emit func(Case) bool) {
		for _, c := range combos {
			alpha := refmodel.OpAlphabet(c, 2, ords)
			var blocks [][]refmodel.Op
			refmodel.Sequences(alpha, maxOps, func(s []refmodel.Op) bool { blocks = append(blocks, s); return true })
			chain := make([][]refmodel.Op, nblocks)
			var rec func(i int) bool
			rec = func(i int) bool {
				if i == nblocks {
					cp := make([][]refmodel.Op, nblocks)
					copy(cp, chain)
					return emit(Case{Combo: c, Blocks: cp})
				}
				for _, b := range blocks {
					chain[i] = b
					if !rec(i + 1) {
						return false
					}
				}
				return true
			}
			if !rec(0) {
				return
			}
			// byte-valued policies: the whole value alphabet including the zero-length value (a value that is empty live is
			// nil once the log has been through the wire format), one ordinal, two blocks of <=2 operations
			if c.Policy == "set" || c.Policy == "set_if_not_exists" || c.Policy == "append" {
				var eb [][]refmodel.Op
				refmodel.Sequences(refmodel.OpAlphabet(c, 3, []uint64{0}), maxOps, func(s []refmodel.Op) bool { eb = append(eb, s); return true })
				for _, b0 := range eb {
					for _, b1 := range eb {
						if !emit(Case{Combo: c, Blocks: [][]refmodel.Op{b0, b1}}) {
							return
						}
					}
				}
			}
			// ordinals are free 64-bit numbers: far-apart ordinals (0, 2^63, 2^64-1) in one block, then a second block
			// of one operation
			xalpha := refmodel.OpAlphabet(c, 1, []uint64{0, 1 << 63, ^uint64(0)})
			var tail [][]refmodel.Op
			refmodel.Sequences(refmodel.OpAlphabet(c, 1, []uint64{0}), 1, func(s []refmodel.Op) bool { tail = append(tail, s); return true })
			okx := refmodel.Sequences(xalpha, 3, func(s []refmodel.Op) bool {
				for _, t := range tail[:2] {
					if !emit(Case{Combo: c, Blocks: [][]refmodel.Op{s, t}}) {
						return false
					}
				}
				return true
			})
			if !okx {
				return
			}
			if ctx.Thorough() {
				// chains of 3 blocks of <=1 operation
				var single [][]refmodel.Op
				refmodel.Sequences(alpha, 1, func(s []refmodel.Op) bool { single = append(single, s); return true })
				for _, a := range single {
					for _, b := range single {
						for _, d := range single {
							if !emit(Case{Combo: c, Blocks: [][]refmodel.Op{a, b, d}}) {
								return
							}
						}
					}
				}
			}
		}
	}, Eval)
	a0 := refmodel.OpAlphabet(combos[3], 2, ords)
	ctx.Sample(Case{Combo: combos[3], Blocks: [][]refmodel.Op{{a0[0], a0[3]}, {a0[len(a0)-2], a0[1]}}})
	ctx.Cov["evaluations"] = st.Evaluations
	ctx.Cov["distinct_nontrivial"] = st.NonTrivial
	ctx.Cov["exhaustive"] = true
	ctx.Cov["combos"] = len(combos)
	ctx.Cov["rule"] = fmt.Sprintf("%d combos x every chain of %d blocks, each block every operation list of length <=%d over (3 keys x 2 values x ordinals %v) + delete_prefix a/b/'' (thorough: + 3-block chains of single operations); + every block of <=3 operations with ordinals from {0, 2^63, 2^64-1}; + for set/set_if_not_exists/append every 2-block chain over the 3-value alphabet that includes the zero-length value. For each block: real execution through the host interface + Flush gives deltas and ReadOps(); a second store in the same pre-state gets Reset()+ApplyOps(log) (what RunModule's cached branch does); deltas compared one by one (proto.Equal), content and SizeBytes compared; same for a PartialKV incl. DeletedPrefixes, then both partials saved, loaded and merged onto 2 non-empty bases. Non-trivial: a block with >=2 operations or a delete_prefix on a non-empty pre-state.", len(combos), nblocks, maxOps, ords)
	ctx.Assume = []string{
		"the replaying store is Reset() before each block as pipeline.resetStores does",
		"both the store-level mirror (Reset+ApplyOps on the log read after Flush) and the production entry point (exec.RunModule on a StoreModuleExecutor with a scripted module issuing the operations in call order, then RunModule's cached branch on the recorded outputForFiles) are compared",
	}
	return ctx.Finish(core.JSONRecheck(ctx.Prop, Eval))
}
