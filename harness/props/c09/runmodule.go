package c09

import (
	"context"
	"fmt"
	"sync"

	ttrace "go.opentelemetry.io/otel/trace"

	pbbstream "github.com/streamingfast/bstream/pb/sf/bstream/v1"
	"go.opentelemetry.io/otel"
	"go.uber.org/zap"
	"google.golang.org/protobuf/proto"
	"google.golang.org/protobuf/types/known/anypb"

	"github.com/streamingfast/substreams/metrics"
	pbsubstreams "github.com/streamingfast/substreams/pb/sf/substreams/v1"
	pbsubstreamstest "github.com/streamingfast/substreams/pb/sf/substreams/v1/test"
	"github.com/streamingfast/substreams/pipeline/exec"
	"github.com/streamingfast/substreams/reqctx"
	"github.com/streamingfast/substreams/storage/execout"
	"github.com/streamingfast/substreams/storage/store"
	"github.com/streamingfast/substreams/wasm"

	"verifharness/core"
	"verifharness/modgen"
	"verifharness/refmodel"
	"verifharness/script"
	"verifharness/storedrv"
)

type rmCtx struct {
	ctx    context.Context
	reg    *wasm.Registry
	tracer ttrace.Tracer
}

var rmPool = sync.Pool{New: func() any {
	script.Register()
	ctx := reqctx.WithLogger(context.Background(), zap.NewNop())
	ctx = reqctx.WithReqStats(ctx, metrics.NewReqStats(&metrics.Config{}, zap.NewNop()))
	ctx = reqctx.WithRequest(ctx, &reqctx.RequestDetails{})
	return &rmCtx{ctx: ctx, reg: wasm.NewRegistryWithRuntime(script.RuntimeName, nil), tracer: otel.GetTracerProvider().Tracer("verif")}
}}

// evalRunModule: the same comparison through the production entry point. Original: exec.RunModule on a
// StoreModuleExecutor whose WASM module is a scripted body issuing the block's operations in *call order*; its
// outputForFiles is the log written to the store's cached-output file. Replay: a second executor on a second store,
// the log placed in the execution buffer as an existing output, so RunModule takes its cached branch.
func evalRunModule(cs Case, cfg *store.Config) *core.Fail {
	c := cs.Combo
	pol := c.Policy
	script.Register()
	body := &script.Body{}
	for i, b := range cs.Blocks {
		for _, op := range b {
			body.Ops = append(body.Ops, script.OpT{If: script.Cond{"eq", i + 1}, T: op.T, Key: script.Lit(op.K), Val: script.Lit(op.V), Ord: op.O})
		}
	}
	prog := &script.Program{Modules: map[string]*script.Body{"st": body}}
	rc := rmPool.Get().(*rmCtx)
	defer rmPool.Put(rc)
	ctx := rc.ctx
	mod, err := rc.reg.NewModule(ctx, prog.Marshal(), "wasm/rust-v1")
	if err != nil {
		return core.Failf("harness:module", "%v", err)
	}
	tracer := rc.tracer
	mk := func(st store.Store) *exec.StoreModuleExecutor {
		args := []wasm.Argument{wasm.NewSourceInput(modgen.BlockType, 0), wasm.NewStoreWriterOutput("st", st, storedrv.Policy(c), c.VT)}
		base := exec.NewBaseExecutor(ctx, "st", 0, mod, false, args, nil, "st", tracer)
		return exec.NewStoreModuleExecutor(base, st)
	}
	desc := func() string { return fmt.Sprintf("%s blocks %s (through exec.RunModule)", c, fmtBlocks(cs.Blocks)) }
	for _, partial := range []bool{false, true} {
		var so, sr store.Store
		if partial {
			so, sr = cfg.NewPartialKV(10, zap.NewNop()), cfg.NewPartialKV(10, zap.NewNop())
		} else {
			so, sr = cfg.NewFullKV(zap.NewNop()), cfg.NewFullKV(zap.NewNop())
		}
		eo, er := mk(so), mk(sr)
		kind := "full"
		if partial {
			kind = "partial"
		}
		for i := range cs.Blocks {
			num := uint64(i + 1)
			clock := &pbsubstreams.Clock{Number: num, Id: fmt.Sprintf("b%d", num)}
			payload, _ := anypb.New(&pbsubstreamstest.Block{Id: clock.Id, Number: num})
			blk := &pbbstream.Block{Id: clock.Id, Number: num, Payload: payload}
			bo, _ := execout.NewBuffer(modgen.BlockType, blk, clock)
			outO, bytesO, logO, _, err := exec.RunModule(ctx, eo, bo)
			if err != nil {
				return core.Failf(pol+":runmodule:exec-error", "%s block %d: %v", desc(), i, err)
			}
			br, _ := execout.NewBuffer(modgen.BlockType, blk, clock)
			br.Set("st", logO) // what cache.Engine.NewBuffer does with an existing output file
			outR, bytesR, _, _, err := exec.RunModule(ctx, er, br)
			if err != nil {
				return core.Failf(pol+":runmodule:replay-error", "%s block %d: %v", desc(), i, err)
			}
			if !partial {
				if outO == nil || outR == nil || !outR.Cached {
					return core.Failf("harness:runmodule-branch", "%s block %d: replay did not take the cached branch", desc(), i)
				}
				do, dr := outO.GetStoreDeltas().GetStoreDeltas(), outR.GetStoreDeltas().GetStoreDeltas()
				if len(do) != len(dr) {
					return core.Failf(pol+":runmodule:delta-count", "%s block %d: executed %s replayed %s", desc(), i, fmtDeltas(do), fmtDeltas(dr))
				}
				for j := range do {
					if !proto.Equal(do[j], dr[j]) {
						return core.Failf(pol+":runmodule:delta-differs", "%s block %d: executed %s replayed %s", desc(), i, fmtDeltas(do), fmtDeltas(dr))
					}
				}
				if string(bytesO) != string(bytesR) {
					return core.Failf(pol+":runmodule:delta-bytes-differ", "%s block %d", desc(), i)
				}
			}
			if a, b := rawContent(so), rawContent(sr); a != b {
				return core.Failf(pol+":runmodule:"+kind+":content-differs", "%s after block %d: executed {%s} replayed {%s}", desc(), i, a, b)
			}
			if so.SizeBytes() != sr.SizeBytes() {
				return core.Failf(pol+":runmodule:"+kind+":size-differs", "%s after block %d: executed %d replayed %d", desc(), i, so.SizeBytes(), sr.SizeBytes())
			}
			// pipeline.resetStores runs at the end of every block
			so.Reset()
			sr.Reset()
		}
		if partial {
			a, b := sortedCopy(so.(*store.PartialKV).DeletedPrefixes), sortedCopy(sr.(*store.PartialKV).DeletedPrefixes)
			if fmt.Sprintf("%q", a) != fmt.Sprintf("%q", b) {
				return core.Failf("runmodule:partial:deleted-prefixes-lost-on-replay", "%s: executed %q replayed %q", desc(), a, b)
			}
		}
		// and against the model
		if !partial {
			ref := refmodel.NewStore(c)
			for _, b := range cs.Blocks {
				ref.ApplyBlock(b)
			}
			got, _, perr := storedrv.Content(sr, c)
			if perr != nil {
				return core.Failf(pol+":runmodule:unparsable", "%s: %v", desc(), perr)
			}
			if d := storedrv.DiffContent(got, ref); d != "" {
				return core.Failf(pol+":runmodule:replayed-differs-from-model", "%s: %s", desc(), d)
			}
		}
	}
	return nil
}
