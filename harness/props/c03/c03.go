// Package c03: reorgs — undo restores every store; clients converge on the canonical chain.
package c03

import (
	"fmt"
	"os"
	"sort"
	"strings"
	"sync"
	"sync/atomic"
	"time"

	"github.com/streamingfast/bstream"

	"github.com/streamingfast/substreams/pipeline"

	"verifharness/core"
	"verifharness/histx"
	"verifharness/progs"
	"verifharness/refmodel"
	"verifharness/script"
	"verifharness/storedrv"
	"verifharness/sysrun"
)

type Case struct {
	Kind    string `json:"kind"` // tree | store
	Parents []int  `json:"parents,omitempty"`
	LibLag  int    `json:"lib_lag,omitempty"`
	Prod    bool   `json:"prod,omitempty"`
	// the request starts this many blocks above the first block: the blocks below are executed silently (stores are
	// built from their initial block, outputs are gated at the start block) and can be undone like any other
	StartAbove int            `json:"start_above,omitempty"`
	Combo      refmodel.Combo `json:"combo,omitempty"`
	Hist       []histx.Event  `json:"history,omitempty"`
}

const genesis = 10

var runs, undoSteps int64

func storeDump(pipe *pipeline.Pipeline) (map[string]string, map[string][2]uint64) {
	out := map[string]string{}
	sizes := map[string][2]uint64{}
	for name, st := range pipe.GetStoreMap() {
		var kvs []string
		var real uint64
		st.Iter(func(k string, v []byte) error {
			kvs = append(kvs, k+"="+string(v))
			real += uint64(len(k) + len(v))
			return nil
		})
		sort.Strings(kvs)
		out[name] = strings.Join(kvs, " ")
		sizes[name] = [2]uint64{st.SizeBytes(), real}
	}
	return out, sizes
}

func evalTree(c Case) (*core.Fail, bool) {
	tree := sysrun.ForkTree{Genesis: genesis, Parents: c.Parents, LibLag: c.LibLag}
	p := progs.Fork(genesis + 1)
	var steps []sysrun.Step
	var srcErr any
	func() {
		defer func() { srcErr = recover() }()
		steps = tree.Steps(genesis+1, 0, "", false)
	}()
	if srcErr != nil {
		return nil, false // the fork resolver refuses this arrival sequence (conflicting finality): not a realizable history
	}
	desc := func() string {
		var s []string
		for _, b := range tree.Blocks()[1:] {
			s = append(s, fmt.Sprintf("%s<-%s", b.ID, tree.Blocks()[b.Parent].ID))
		}
		var st []string
		for _, x := range steps {
			st = append(st, fmt.Sprintf("%s:%s", x.Step, x.ID))
		}
		return fmt.Sprintf("arrival [%s] lib-lag=%d prod=%v request starts at %d steps [%s]", strings.Join(s, " "), c.LibLag, c.Prod, genesis+1+c.StartAbove, strings.Join(st, " "))
	}
	dir := sysrun.Scratch("c03")
	defer os.RemoveAll(dir)
	var chain []script.Blk
	var fail *core.Fail
	var mu sync.Mutex
	hasUndo := false
	after := func(s sysrun.Step, pipe *pipeline.Pipeline) {
		mu.Lock()
		defer mu.Unlock()
		if fail != nil {
			return
		}
		switch {
		case s.Step.Matches(bstream.StepNew):
			chain = append(chain, script.Blk{Num: s.Num, ID: s.ID})
		case s.Step.Matches(bstream.StepUndo):
			hasUndo = true
			atomic.AddInt64(&undoSteps, 1)
			if len(chain) == 0 || chain[len(chain)-1].ID != s.ID {
				fail = core.Failf("harness:undo-not-top", "%s: undo of %s while the chain top is %v", desc(), s.ID, chain)
				return
			}
			chain = chain[:len(chain)-1]
		default:
			return
		}
		// every store: content and size equal an execution of only the canonical chain's blocks
		it, err := script.NewInterp(p.Modules, p.Output)
		if err != nil {
			fail = core.Failf("harness:interp", "%v", err)
			return
		}
		for _, b := range chain {
			it.Step(b)
		}
		got, sizes := storeDump(pipe)
		for name := range it.Stores {
			want := it.StoreDump(name)
			if got[name] != want {
				fail = core.Failf("store-differs-from-canonical-chain-execution", "%s: after step %s:%s store %s is {%s}; executing only the canonical chain %v gives {%s}", desc(), s.Step, s.ID, name, got[name], chain, want)
				return
			}
			if sz := sizes[name]; sz[0] != sz[1] {
				fail = core.Failf("store-size-differs", "%s: after step %s:%s store %s reports %d bytes, holds %d", desc(), s.Step, s.ID, name, sz[0], sz[1])
				return
			}
		}
	}
	atomic.AddInt64(&runs, 1)
	cfg := sysrun.Config{Modules: p.Modules, Output: p.Output, Prod: c.Prod, Seg: 10, Start: int64(genesis + 1 + c.StartAbove), Stop: 0, Final: genesis, Dir: dir, Source: tree, AfterLinearBlock: after, Timeout: 15 * time.Second}
	r := sysrun.Run(cfg)
	if fail != nil {
		return fail, hasUndo
	}
	if r.Err != nil && !strings.Contains(r.Err.Error(), "EOF") {
		return core.Failf("request-failed", "%s: %v", desc(), r.Err), hasUndo
	}
	if len(r.Jobs) != 0 {
		return core.Failf("harness:unexpected-jobs", "%s: %d tier2 jobs", desc(), len(r.Jobs)), false
	}
	// client emulator
	type held struct {
		num     uint64
		id      string
		payload string
	}
	var client []held
	for i, m := range r.Seq {
		switch m.Kind {
		case "data":
			if n := len(client); n > 0 && client[n-1].num >= m.Num {
				return core.Failf("client-sees-two-blocks-at-a-height-without-undo", "%s: message %d delivers %s while the client holds %s at height %d", desc(), i, m.ID, client[n-1].id, client[n-1].num), hasUndo
			}
			client = append(client, held{m.Num, m.ID, m.Payload})
		case "undo":
			// the designated block is one the client holds, or the one before its first
			ok := false
			for _, h := range client {
				if h.num == m.Num && h.id == m.ID {
					ok = true
				}
			}
			if !ok && (len(client) == 0 || m.Num < client[0].num) {
				ok = true
			}
			if !ok {
				return core.Failf("undo-designates-a-block-the-client-does-not-hold", "%s: undo signal for %s (height %d), client holds %v", desc(), m.ID, m.Num, client), hasUndo
			}
			for len(client) > 0 && client[len(client)-1].num > m.Num {
				client = client[:len(client)-1]
			}
		}
	}
	// at the end: exactly the canonical chain's blocks from the start block on, with the payloads of a fork-free run of that chain
	it, _ := script.NewInterp(p.Modules, p.Output)
	startBlock := uint64(genesis + 1 + c.StartAbove)
	// an undo step opens the output gate by design (pipeline/gate.go blockTriggersGate: a request resumed from a cursor
	// on a forked block must receive the undo and the blocks that replace its own): after a reorg below the start block
	// the client legitimately holds canonical blocks below the start block. What must hold is that it holds a
	// contiguous tail of the canonical chain that includes every block from the start block on.
	if len(client) > 0 && client[0].num < startBlock && hasUndo {
		startBlock = client[0].num
	}
	var visible []script.Blk
	for _, b := range chain {
		if b.Num >= startBlock {
			visible = append(visible, b)
		}
	}
	if len(client) != len(visible) {
		return core.Failf("client-does-not-converge", "%s: client holds %v, the canonical chain from the start block is %v", desc(), client, visible), hasUndo
	}
	vi := 0
	for _, b := range chain {
		res := it.Step(b)
		if b.Num < startBlock {
			continue
		}
		i := vi
		vi++
		if client[i].id != b.ID || client[i].payload != res.Payload[p.Output] {
			return core.Failf("client-does-not-converge", "%s: at %d the client holds %s %q, a fork-free run of the canonical chain gives %s %q", desc(), i, client[i].id, client[i].payload, b.ID, res.Payload[p.Output]), hasUndo
		}
	}
	return nil, hasUndo
}

func evalStore(c Case) (*core.Fail, bool) {
	x := &histx.Explorer{Env: storedrv.NewEnv(), Cfg: storedrv.NewConfig(c.Combo, 0, storedrv.MemStore()), C: c.Combo, Menu: histx.DefaultMenu(c.Combo), Oracle: "undo"}
	_, f := x.Build(c.Hist)
	return f, true
}

func Eval(c Case) (*core.Fail, bool) {
	if c.Kind == "store" {
		return evalStore(c)
	}
	return evalTree(c)
}

// EnumTrees enumerates the fork histories of the pipeline half: every arrival sequence of n <= maxN blocks, then the
// 2-branch ladders up to n2 blocks and the 3-branch ladders up to n3 blocks. Also used by C11 (size oracle).
func EnumTrees(maxN, n2, n3 int, emit func(Case) bool) bool {
	for n := 1; n <= maxN; n++ {
		parents := make([]int, n)
		var rec func(i int) bool
		rec = func(i int) bool {
			if i == n {
				cp := append([]int{}, parents...)
				lags := []int{0}
				modes := []bool{false}
				if n <= maxN-1 {
					lags = []int{0, 2, 1}
					modes = []bool{false, true}
				}
				for _, lag := range lags {
					for _, prod := range modes {
						if !emit(Case{Kind: "tree", Parents: cp, LibLag: lag, Prod: prod}) {
							return false
						}
					}
				}
				return true
			}
			for p := 0; p <= i; p++ {
				parents[i] = p
				if !rec(i + 1) {
					return false
				}
			}
			return true
		}
		if !rec(0) {
			return false
		}
	}
	// competing-branch ladders: every block extends the tip of one of k branches rooted at genesis (k^n sequences):
	// deep reorgs and repeated overtakes far beyond the n! bound
	ladder := func(k, n int) bool {
		choice := make([]int, n)
		var rec func(i int) bool
		rec = func(i int) bool {
			if i == n {
				tips := make([]int, k) // index of the tip block of each branch (0 = genesis)
				parents := make([]int, n)
				for j, b := range choice {
					parents[j] = tips[b]
					tips[b] = j + 1
				}
				return emit(Case{Kind: "tree", Parents: parents, LibLag: 0})
			}
			for b := 0; b < k; b++ {
				if i == 0 && b > 0 {
					break // symmetry: the first block opens branch 0
				}
				choice[i] = b
				if !rec(i + 1) {
					return false
				}
			}
			return true
		}
		return rec(0)
	}
	for n := maxN + 1; n <= n2; n++ {
		if !ladder(2, n) {
			return false
		}
	}
	for n := maxN + 1; n <= n3; n++ {
		if !ladder(3, n) {
			return false
		}
	}
	return true
}

func Run(ctx *core.Ctx) int {
	ctx.Level = "exploration"
	ctx.Parallel = 32
	defer sysrun.CleanupAll()
	if ctx.Replay != "" {
		return core.RunReplay(ctx, Eval)
	}
	maxN := 7
	if ctx.Thorough() {
		maxN = 8
	}
	if v, ok := ctx.Args["n"]; ok {
		fmt.Sscan(v, &maxN)
	}
	// ---- store-level half (E4): BFS over {apply, undo} histories with the content oracle
	combos := refmodel.CoreCombos()
	depth := 5
	if ctx.Thorough() {
		depth = 6
	}
	type sres struct {
		c   refmodel.Combo
		res histx.Result
	}
	sresults := make([]sres, len(combos))
	var wg sync.WaitGroup
	for i, c := range combos {
		wg.Add(1)
		go func(i int, c refmodel.Combo) {
			defer wg.Done()
			x := &histx.Explorer{Env: storedrv.NewEnv(), Cfg: storedrv.NewConfig(c, 0, storedrv.MemStore()), C: c, Menu: histx.DefaultMenu(c), Oracle: "undo"}
			sresults[i] = sres{c, x.BFS(depth)}
		}(i, c)
	}
	wg.Wait()
	sStates, sTrans, sUndos := 0, 0, 0
	for _, r := range sresults {
		sStates += r.res.States
		sTrans += r.res.Transitions
		sUndos += r.res.Undos
		if r.res.Fail != nil {
			ctx.Violation(r.res.Fail, Case{Kind: "store", Combo: r.c, Hist: r.res.FailHist}, int64(len(r.res.FailHist)))
		}
	}
	// ---- pipeline half (E3): every arrival sequence through the real fork resolver and the real pipeline
	n2, n3 := 11, 8
	if ctx.Thorough() {
		n2, n3 = 14, 10
	}
	st := core.ParallelEnum(ctx, func(emit func(Case) bool) {
		EnumTrees(maxN, n2, n3, func(c Case) bool {
			if !emit(c) {
				return false
			}
			// the same history served to a request that starts above the first blocks
			if c.LibLag == 0 && !c.Prod && len(c.Parents) >= 3 && len(c.Parents) <= maxN+2 {
				for _, k := range []int{1, 2} {
					v := c
					v.StartAbove = k
					if !emit(v) {
						return false
					}
				}
			}
			return true
		})
	}, Eval)
	ctx.Sample(Case{Kind: "tree", Parents: []int{0, 0, 2, 1, 4, 3, 6}, LibLag: 0})
	ctx.Cov["evaluations"] = st.Evaluations + int64(sTrans)
	ctx.Cov["distinct_nontrivial"] = st.NonTrivial + int64(sUndos)
	ctx.Cov["pipeline_runs"] = runs
	ctx.Cov["undo_steps_processed"] = undoSteps
	ctx.Cov["store_level_states"] = sStates
	ctx.Cov["store_level_transitions"] = sTrans
	ctx.Cov["exhaustive"] = true
	ctx.Cov["rule"] = fmt.Sprintf("pipeline half: every arrival sequence of n <= %d blocks above a final genesis block in which each new block's parent is any earlier block (n! sequences: fork tree and arrival order together; 7 blocks are the minimum for a block undone, re-applied and undone again), final block fixed at genesis for the largest n and also 'ancestor 2 below' / 'ancestor 1 below' and production mode for smaller n; the blocks go through the real bstream fork resolver (HoldBlocksUntilLIB, inclusive LIB) and its (block, step, cursor, junction) objects through the real Pipeline.ProcessBlock of a tier1 request on a program whose store operations depend on the block id (create, size-changing update, delete_prefix, additive counter, store deltas). After every new/undo step every store's content and SizeBytes are compared with the reference execution of only the current canonical chain; a client emulator applies data and undo messages and must end with the canonical chain's outputs of a fork-free run. Beyond the n! bound: every ladder in which each block extends the tip of one of 2 branches (n <= 11, thorough 14) or 3 branches (n <= 8, thorough 10) rooted at genesis. Store-level half (E4): BFS depth %d over {apply, undo, merge, save+load} histories per policy with the oracle 'content after undo == content before the undone block'. Non-trivial: histories with at least one undo.", maxN, depth)
	ctx.Assume = []string{
		"arrival sequences the fork resolver refuses (conflicting finality declarations) are skipped",
		"no tier2 back-fill in these runs (modules start right above genesis)",
	}
	return ctx.Finish(core.JSONRecheck(ctx.Prop, Eval))
}
