// Package c12: request resolution and planning cover the requested range exactly.
package c12

import (
	"context"
	"errors"
	"fmt"
	"github.com/streamingfast/substreams/block"

	"github.com/streamingfast/bstream"

	"github.com/streamingfast/substreams/orchestrator/plan"
	pbsubstreamsrpc "github.com/streamingfast/substreams/pb/sf/substreams/rpc/v2"
	pbsubstreams "github.com/streamingfast/substreams/pb/sf/substreams/v1"
	"github.com/streamingfast/substreams/pipeline"
	"github.com/streamingfast/substreams/pipeline/exec"

	"verifharness/core"
	"verifharness/modgen"
)

type Case struct {
	Kind    string   `json:"kind"` // plan | cursor
	Prod    bool     `json:"prod"`
	Seg     uint64   `json:"seg"`
	Stores  []uint64 `json:"stores"`   // ordered list of store initial blocks
	MapInit uint64   `json:"map_init"` // output module initial block
	Start   uint64   `json:"start"`
	Stop    uint64   `json:"stop"`
	Lib     int64    `json:"lib"` // -1: final block unknown
	// cursor cases
	Step     int    `json:"step,omitempty"`
	Block    uint64 `json:"block,omitempty"`
	CLib     uint64 `json:"clib,omitempty"`
	Head     uint64 `json:"head,omitempty"`
	Resolver int    `json:"resolver,omitempty"` // 0 no junction, 1 junction = block, 2 junction below (block-2), 3 error
	// cursor cases: the start block the request still carries next to its cursor (clients resend their original one):
	// 0, an absolute block below the cursor, or a head-relative negative number (head = 1000)
	RawStart int64 `json:"raw_start,omitempty"`
}

func buildModules(cs Case) *pbsubstreams.Modules {
	var mods []*pbsubstreams.Module
	inputs := []*pbsubstreams.Module_Input{modgen.Src()}
	for i, init := range cs.Stores {
		name := fmt.Sprintf("s%d", i)
		mods = append(mods, modgen.Store(name, init, pbsubstreams.Module_KindStore_UPDATE_POLICY_SET, "string", modgen.Src()))
		inputs = append(inputs, modgen.StoreIn(name, false))
	}
	mods = append(mods, modgen.Map("m", cs.MapInit, inputs...))
	return modgen.Modules([]byte("bin"), mods...)
}

type outcome struct {
	err     error
	errAt   string
	start   uint64
	handoff uint64
	gate    uint64
	plan    *plan.RequestPlan
	undo    *pbsubstreamsrpc.BlockUndoSignal
	cursor  string
}

func ref(num uint64, tag string) bstream.BlockRef {
	return bstream.NewBlockRef(fmt.Sprintf("%s%d", tag, num), num)
}

// run replicates what Tier1Service.blocks does between receiving the request and running the plan.
func run(cs Case) (o outcome) {
	req := &pbsubstreamsrpc.Request{
		StartBlockNum:  int64(cs.Start),
		StopBlockNum:   cs.Stop,
		Modules:        buildModules(cs),
		OutputModule:   "m",
		ProductionMode: cs.Prod,
	}
	getLib := func() (uint64, error) {
		if cs.Lib < 0 {
			return 0, errors.New("no final block known")
		}
		return uint64(cs.Lib), nil
	}
	getHead := func() (uint64, error) { return 1000, nil }
	resolver := func(ctx context.Context, c *bstream.Cursor) (bstream.BlockRef, bstream.BlockRef, error) {
		head := ref(cs.Head, "h")
		switch cs.Resolver {
		case 0:
			return nil, head, nil
		case 1:
			return c.Block, head, nil
		case 2:
			return ref(c.Block.Num()-2, "j"), head, nil
		}
		return nil, nil, errors.New("cannot resolve")
	}
	if cs.Kind == "cursor" {
		steps := []bstream.StepType{bstream.StepNew, bstream.StepUndo, bstream.StepIrreversible, bstream.StepNewIrreversible}
		cur := &bstream.Cursor{Step: steps[cs.Step], Block: ref(cs.Block, "b"), LIB: ref(cs.CLib, "l"), HeadBlock: ref(cs.Head, "h")}
		req.StartCursor = cur.ToOpaque()
		req.StartBlockNum = cs.RawStart
	}
	details, undo, err := pipeline.BuildRequestDetails(context.Background(), req, getLib, resolver, getHead, cs.Seg)
	if err != nil {
		return outcome{err: err, errAt: "BuildRequestDetails"}
	}
	o.undo, o.cursor = undo, details.ResolvedCursor
	o.start, o.handoff, o.gate = details.ResolvedStartBlockNum, details.LinearHandoffBlockNum, details.LinearGateBlockNum
	if details.ResolvedStartBlockNum == req.StopBlockNum && req.StopBlockNum != 0 {
		o.err, o.errAt = errors.New("start block and stop block are the same"), "tier1.blocks"
		return
	}
	g, err := exec.NewOutputModuleGraph("m", cs.Prod, req.Modules, 0)
	if err != nil {
		o.err, o.errAt = err, "NewOutputModuleGraph"
		return
	}
	if err := g.ValidateRequestStartBlock(details.ResolvedStartBlockNum); err != nil {
		o.err, o.errAt = err, "ValidateRequestStartBlock"
		return
	}
	scheduleStores := g.StagedUsedModules()[0].LastLayer().IsStoreLayer()
	var lowestStores uint64
	if scheduleStores {
		lowestStores = *g.LowestStoresInitBlock()
	}
	p, err := plan.BuildTier1RequestPlan(details.ProductionMode, cs.Seg, g.LowestInitBlock(), lowestStores, details.ResolvedStartBlockNum, details.LinearHandoffBlockNum, details.StopBlockNum, scheduleStores)
	if err != nil {
		o.err, o.errAt = err, "BuildTier1RequestPlan"
		return
	}
	o.plan = p
	return
}

func (cs Case) String() string {
	lib := "unknown"
	if cs.Lib >= 0 {
		lib = fmt.Sprint(cs.Lib)
	}
	mode := "dev"
	if cs.Prod {
		mode = "prod"
	}
	return fmt.Sprintf("%s seg=%d stores=%v map=%d start=%d stop=%d final=%s", mode, cs.Seg, cs.Stores, cs.MapInit, cs.Start, cs.Stop, lib)
}

func evalPlan(cs Case) (*core.Fail, bool) {
	o := run(cs)
	// impossible requests must be errors
	if cs.Start < cs.MapInit {
		if o.err == nil {
			return core.Failf("accepted:start-below-output-initial-block", "%s: accepted with plan %s", cs, o.plan), false
		}
		return nil, false
	}
	if cs.Stop != 0 && cs.Start == cs.Stop {
		if o.err == nil {
			return core.Failf("accepted:empty-range", "%s: accepted", cs), false
		}
		return nil, false
	}
	if o.err != nil {
		// legitimate: production, unbounded, no final block known
		if cs.Prod && cs.Stop == 0 && cs.Lib < 0 {
			return nil, false
		}
		return core.Failf("spurious-error:"+o.errAt, "%s: rejected by %s: %v", cs, o.errAt, o.err), false
	}
	p, H, start, stop, seg := o.plan, o.handoff, o.start, cs.Stop, cs.Seg
	if start != cs.Start {
		return core.Failf("resolved-start", "%s: resolved start %d", cs, start), false
	}
	desc := func() string { return fmt.Sprintf("%s -> hand-off %d gate %d plan %s", cs, H, o.gate, p) }
	// stores needed for the output that start below the hand-off
	var lowestStore uint64
	haveBelow := false
	for _, s := range cs.Stores {
		if s < H && (!haveBelow || s < lowestStore) {
			lowestStore, haveBelow = s, true
		}
	}
	// --- stores are built exactly up to the hand-off
	if haveBelow {
		if p.BuildStores == nil {
			return core.Failf("stores-not-built", "%s: store at %d starts below the hand-off but no store range is planned", desc(), lowestStore), true
		}
		if p.BuildStores.ExclusiveEndBlock != H || p.BuildStores.StartBlock != lowestStore {
			return core.Failf("stores-range", "%s: stores must be built for [%d,%d)", desc(), lowestStore, H), true
		}
	} else if p.BuildStores != nil {
		return core.Failf("stores-range-without-need", "%s: no store starts below the hand-off", desc()), true
	}
	// --- a store that starts below the start block needs its history: the hand-off cannot be above... (dev: hand-off <= start)
	if !cs.Prod && H > start {
		return core.Failf("dev:handoff-above-start", "%s: development mode never reads cached outputs, blocks [%d,%d) would not be delivered", desc(), start, H), true
	}
	// --- cached outputs are read for [start, min(H, stop))
	if cs.Prod && start < H {
		end := H
		if stop != 0 && stop < H {
			end = stop
		}
		if p.ReadExecOut == nil || p.ReadExecOut.StartBlock != start || p.ReadExecOut.ExclusiveEndBlock != end {
			return core.Failf("read-range", "%s: cached outputs must be read for [%d,%d)", desc(), start, end), true
		}
		if p.WriteExecOut == nil || p.WriteExecOut.ExclusiveEndBlock != H || p.WriteExecOut.StartBlock > start {
			return core.Failf("write-range", "%s: outputs must be produced up to the hand-off from at or below the start block", desc()), true
		}
		lowestInit := cs.MapInit
		for _, s := range cs.Stores {
			if s < lowestInit {
				lowestInit = s
			}
		}
		if p.WriteExecOut.StartBlock%seg != 0 && p.WriteExecOut.StartBlock != lowestInit {
			return core.Failf("write-range-unaligned", "%s: output production starts at %d, neither a segment boundary nor the lowest initial block %d", desc(), p.WriteExecOut.StartBlock, lowestInit), true
		}
		if start-p.WriteExecOut.StartBlock >= seg {
			return core.Failf("write-range-too-early", "%s: output production starts more than a segment below the start block", desc()), true
		}
	} else {
		if p.ReadExecOut != nil {
			return core.Failf("read-range-without-need", "%s", desc()), true
		}
		if p.WriteExecOut != nil {
			return core.Failf("write-range-without-need", "%s", desc()), true
		}
	}
	// --- linear processing covers [H, stop)
	if stop == 0 || H < stop {
		if p.LinearPipeline == nil || p.LinearPipeline.StartBlock != H || p.LinearPipeline.ExclusiveEndBlock != stop {
			return core.Failf("linear-range", "%s: linear processing must cover [%d,%d)", desc(), H, stop), true
		}
	} else if p.LinearPipeline != nil {
		return core.Failf("linear-range-without-need", "%s: hand-off at or above the stop block", desc()), true
	}
	// --- gate
	wantGate := start
	if H > start {
		wantGate = H
	}
	if o.gate != wantGate {
		return core.Failf("gate", "%s: outputs must be gated at %d", desc(), wantGate), true
	}
	// --- back-filling implies an aligned hand-off, and non-empty ranges
	backfill := p.BuildStores != nil || p.WriteExecOut != nil
	if backfill && H%seg != 0 {
		return core.Failf("handoff-not-a-segment-boundary", "%s: something is back-filled up to the hand-off, which is not a multiple of %d", desc(), seg), true
	}
	for name, r := range map[string]*struct{ s, e uint64 }{} {
		_ = name
		_ = r
	}
	if p.BuildStores != nil && p.BuildStores.StartBlock >= p.BuildStores.ExclusiveEndBlock {
		return core.Failf("empty-range:stores", "%s", desc()), true
	}
	if p.WriteExecOut != nil && p.WriteExecOut.StartBlock >= p.WriteExecOut.ExclusiveEndBlock {
		return core.Failf("empty-range:write", "%s", desc()), true
	}
	if p.ReadExecOut != nil && p.ReadExecOut.StartBlock >= p.ReadExecOut.ExclusiveEndBlock {
		return core.Failf("empty-range:read", "%s", desc()), true
	}
	// --- every range handed to segment jobs is made of whole segments except at a module's initial block
	if backfill {
		sg := p.BackprocessSegmenter()
		for idx := sg.FirstIndex(); idx <= sg.LastIndex(); idx++ {
			r := sg.Range(idx)
			if r == nil || r.StartBlock >= r.ExclusiveEndBlock {
				return core.Failf("job-range-empty", "%s: segment %d is %v", desc(), idx, r), true
			}
			if r.ExclusiveEndBlock%seg != 0 {
				return core.Failf("job-range-not-whole-segment", "%s: segment %d is %s", desc(), idx, r), true
			}
			if r.StartBlock%seg != 0 && idx != sg.FirstIndex() {
				return core.Failf("job-range-not-whole-segment", "%s: segment %d is %s", desc(), idx, r), true
			}
		}
		// --- no gap: the segments handed to jobs cover every block that has to be back-filled (the store range and the
		// range whose outputs are produced), and nothing at or above the hand-off
		covered := map[uint64]bool{}
		for idx := sg.FirstIndex(); idx <= sg.LastIndex(); idx++ {
			r := sg.Range(idx)
			for b := r.StartBlock; b < r.ExclusiveEndBlock; b++ {
				covered[b] = true
			}
		}
		for name, r := range map[string]*block.Range{"stores": p.BuildStores, "write": p.WriteExecOut, "read": p.ReadExecOut} {
			if r == nil {
				continue
			}
			for b := r.StartBlock; b < r.ExclusiveEndBlock; b++ {
				if !covered[b] {
					return core.Failf("job-segments-do-not-cover:"+name, "%s: block %d of the %s range %s lies in no segment handed to jobs (segments %d..%d from %s)", desc(), b, name, r, sg.FirstIndex(), sg.LastIndex(), sg.Range(sg.FirstIndex())), true
				}
			}
		}
		for b := range covered {
			if b >= H {
				return core.Failf("job-segments-beyond-handoff", "%s: block %d is handed to a segment job", desc(), b), true
			}
		}
		if p.BuildStores != nil {
			for _, s := range cs.Stores {
				if s >= H {
					continue
				}
				ms := p.ModuleSegmenter(s)
				for idx := ms.FirstIndex(); idx <= ms.LastIndex(); idx++ {
					r := ms.Range(idx)
					if r == nil || r.ExclusiveEndBlock%seg != 0 || (r.StartBlock%seg != 0 && r.StartBlock != s) {
						return core.Failf("store-job-range-not-whole-segment", "%s: store at %d segment %d is %v", desc(), s, idx, r), true
					}
				}
			}
		}
	}
	return nil, backfill
}

func evalCursor(cs Case) (*core.Fail, bool) {
	o := run(cs)
	steps := []string{"new", "undo", "irreversible", "new+irreversible"}
	desc := fmt.Sprintf("cursor step=%s block=%d lib=%d head=%d stop=%d resolver=%d request start field=%d", steps[cs.Step], cs.Block, cs.CLib, cs.Head, cs.Stop, cs.Resolver, cs.RawStart)
	if o.errAt != "" && o.errAt != "BuildRequestDetails" {
		return nil, false // plan-level outcome: judged by the plan cases
	}
	if cs.Stop > 0 && cs.Stop < cs.Block {
		if o.err == nil {
			return core.Failf("cursor:accepted-after-stop", "%s: accepted", desc), false
		}
		return nil, false
	}
	if cs.Block == cs.CLib { // on a final block: restart right after it
		if o.err != nil {
			return core.Failf("cursor:final:error", "%s: %v", desc, o.err), false
		}
		if o.start != cs.Block+1 || o.undo != nil {
			return core.Failf("cursor:final:start", "%s: start %d undo %v", desc, o.start, o.undo), false
		}
		return nil, false
	}
	if cs.CLib > cs.Block {
		if o.err == nil {
			return core.Failf("cursor:accepted-lib-above-block", "%s: accepted", desc), false
		}
		return nil, false
	}
	if cs.Resolver == 3 {
		if o.err == nil {
			return core.Failf("cursor:resolver-error-ignored", "%s: accepted", desc), false
		}
		return nil, false
	}
	if o.err != nil {
		return core.Failf("cursor:spurious-error", "%s: %v", desc, o.err), false
	}
	// outputs are gated at the resolved start block (or at the hand-off when it lies above), whatever start block the
	// request still carries next to its cursor
	if wantGate := max(o.handoff, o.start); o.gate != wantGate {
		return core.Failf("cursor:gate", "%s: resolved start %d, hand-off %d: outputs must be gated at %d, the gate is %d", desc, o.start, o.handoff, wantGate, o.gate), true
	}
	if cs.Resolver == 2 { // forked: undo signal for the junction, restart right after it
		j := cs.Block - 2
		if o.undo == nil {
			return core.Failf("cursor:forked:no-undo-signal", "%s: start %d", desc, o.start), true
		}
		if o.undo.LastValidBlock == nil || o.undo.LastValidBlock.Number != j || o.undo.LastValidBlock.Id != fmt.Sprintf("j%d", j) {
			return core.Failf("cursor:forked:undo-designates-wrong-block", "%s: undo signal %v", desc, o.undo), true
		}
		c, err := bstream.CursorFromOpaque(o.undo.LastValidCursor)
		if err != nil || c.Block.Num() != j || c.Block.ID() != fmt.Sprintf("j%d", j) {
			return core.Failf("cursor:forked:undo-cursor", "%s: last valid cursor %v (%v)", desc, c, err), true
		}
		if o.start != j+1 {
			return core.Failf("cursor:forked:restart", "%s: restart at %d, want %d", desc, o.start, j+1), true
		}
		return nil, true
	}
	if o.undo != nil {
		return core.Failf("cursor:not-forked:undo-signal", "%s: undo %v", desc, o.undo), true
	}
	want := cs.Block + 1
	if cs.Step == 1 {
		want = cs.Block
	}
	if o.start != want {
		return core.Failf("cursor:start", "%s: start %d want %d", desc, o.start, want), true
	}
	return nil, true
}

func Eval(cs Case) (*core.Fail, bool) {
	if cs.Kind == "cursor" {
		return evalCursor(cs)
	}
	return evalPlan(cs)
}

func uniq(in []uint64) []uint64 {
	seen := map[uint64]bool{}
	var out []uint64
	for _, v := range in {
		if !seen[v] {
			seen[v] = true
			out = append(out, v)
		}
	}
	return out
}

func Run(ctx *core.Ctx) int {
	ctx.Level = "exploration"
	if ctx.Replay != "" {
		return core.RunReplay(ctx, Eval)
	}
	segs := []uint64{2, 3, 5, 10}
	maxStores := 2
	if ctx.Thorough() {
		segs = []uint64{2, 3, 4, 5, 7, 10, 12}
		maxStores = 3
	}
	st := core.ParallelEnum(ctx, func(emit func(Case) bool) {
		for _, seg := range segs {
			bset := uniq([]uint64{0, 1, seg - 1, seg, seg + 1, 2*seg - 1, 2 * seg, 2*seg + 1, 3 * seg})
			var storeLists [][]uint64
			storeLists = append(storeLists, nil)
			for _, a := range bset {
				storeLists = append(storeLists, []uint64{a})
				for _, b := range bset {
					storeLists = append(storeLists, []uint64{a, b})
					if maxStores >= 3 {
						for _, c := range bset {
							storeLists = append(storeLists, []uint64{a, b, c})
						}
					}
				}
			}
			mapInits := bset
			if maxStores >= 3 {
				mapInits = uniq([]uint64{0, 1, seg, seg + 1, 2 * seg})
			}
			for _, prod := range []bool{false, true} {
				for _, stores := range storeLists {
					for _, mi := range mapInits {
						for start := uint64(0); start <= 2*seg+2; start++ {
							stops := uniq([]uint64{0, start + 1, seg - 1, seg, seg + 1, 2*seg - 1, 2 * seg, 2*seg + 1, 3*seg - 1, 3 * seg, 3*seg + 1, start + 2*seg})
							for _, stop := range stops {
								if stop != 0 && stop < start {
									continue // outside the property's quantifier (stop is 0 or above start); stop == start is the empty-range case
								}
								libs := []int64{-1, 0}
								for _, l := range uniq([]uint64{start - 1, start, start + 1, seg - 1, seg, seg + 1, 2*seg - 1, 2 * seg, 2*seg + 1, 3 * seg, stop + 1, 4 * seg}) {
									if int64(l) > 0 {
										libs = append(libs, int64(l))
									}
								}
								for _, lib := range libs {
									if !emit(Case{Kind: "plan", Prod: prod, Seg: seg, Stores: stores, MapInit: mi, Start: start, Stop: stop, Lib: lib}) {
										return
									}
								}
							}
						}
					}
				}
			}
		}
		// cursor shapes
		for step := 0; step < 4; step++ {
			for _, blk := range []uint64{12, 25} {
				for _, clib := range []uint64{blk - 5, blk, blk + 1} {
					if step >= 2 && clib != blk {
						continue // the fork resolver stamps an irreversible step's cursor with LIB = block (forkable.go processIrreversibleSegment); other shapes are not produced
					}
					for _, stop := range []uint64{0, blk - 1, blk + 10} {
						for res := 0; res < 4; res++ {
							for _, prod := range []bool{false, true} {
								for _, raw := range []int64{0, 7, -980} {
									if !emit(Case{Kind: "cursor", Prod: prod, Seg: 10, Stores: []uint64{5}, MapInit: 0, Stop: stop, Lib: int64(blk + 100), Step: step, Block: blk, CLib: clib, Head: blk + 3, Resolver: res, RawStart: raw}) {
										return
									}
								}
							}
						}
					}
				}
			}
		}
	}, Eval)
	ctx.Sample(Case{Kind: "plan", Prod: false, Seg: 10, Stores: []uint64{15, 5}, MapInit: 0, Start: 18, Stop: 0, Lib: -1})
	ctx.Sample(Case{Kind: "plan", Prod: true, Seg: 5, Stores: []uint64{4, 6}, MapInit: 1, Start: 7, Stop: 16, Lib: 11})
	ctx.Sample(Case{Kind: "cursor", Prod: true, Seg: 10, Stores: []uint64{5}, Stop: 0, Lib: 112, Step: 0, Block: 12, CLib: 7, Head: 15, Resolver: 2})
	ctx.Cov["evaluations"] = st.Evaluations
	ctx.Cov["distinct_nontrivial"] = st.NonTrivial
	ctx.Cov["exhaustive"] = true
	ctx.Cov["rule"] = fmt.Sprintf("mode x segment size %v x ordered lists of 0..%d store initial blocks and an output-module initial block from the boundary set {0,1,seg-1,seg,seg+1,2seg-1,2seg,2seg+1,3seg} x start 0..2seg+2 x stop in {0,start,start+1,boundaries+-1,start+2seg} (stop below start is outside the quantifier) x final block in {unknown,0,start+-1,boundaries+-1,stop+1,4seg}; through the real BuildRequestDetails (which builds the module graph), the glue of Tier1Service.blocks (replicated: empty-range test, NewOutputModuleGraph, ValidateRequestStartBlock, scheduleStores) and BuildTier1RequestPlan and its segmenters. Cursor shapes: step x block x LIB below/at/above x stop x resolver answer {none, same block, junction 2 below, error}. Non-trivial: the plan back-fills something (BuildStores or WriteExecOut), or the cursor reaches the resolver.", segs, maxStores)
	ctx.Assume = []string{
		"module graphs are 'k stores on the block source + one output map reading them'; other graph shapes are C14's",
		"first streamable block 0",
		"a rejected request is only judged spurious when start >= output initial block, range non-empty and (dev, or stop != 0, or final block known)",
	}
	return ctx.Finish(core.JSONRecheck(ctx.Prop, Eval))
}
