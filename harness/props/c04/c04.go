// Package c04: each requested block is delivered once, in order; streams resume from cursors.
package c04

import (
	"fmt"
	"strings"
	"sync/atomic"
	"time"

	"github.com/streamingfast/bstream"

	"verifharness/core"
	"verifharness/progs"
	"verifharness/sysrun"
)

type Case struct {
	Prog  string `json:"prog"` // storemap | sparse | maponly
	Prod  bool   `json:"prod"`
	Seg   uint64 `json:"seg"`
	SInit uint64 `json:"store_init"`
	MInit uint64 `json:"map_init"`
	Start uint64 `json:"start"`
	Stop  uint64 `json:"stop"`
	Final int64  `json:"final"` // -1 unknown
	// set in artefacts to re-run a single resumption
	ResumeAt *int `json:"resume_at,omitempty"`
	// environment deviation: the block source shuts down cleanly right after block CleanEndAt, in tier1's stream or in the
	// tier2 job that processes it. The request must then end with an error, never succeed with blocks missing.
	// environment deviation: the response sink panics while the data message of this block is written. The request
	// must end with an error there: nothing after it, no block silently skipped.
	SinkPanicAt   uint64 `json:"sink_panic_at,omitempty"`
	CleanEndAt    uint64 `json:"clean_end_at,omitempty"`
	CleanEndTier2 bool   `json:"clean_end_tier2,omitempty"`
}

func (c Case) String() string {
	mode := "dev"
	if c.Prod {
		mode = "prod"
	}
	f := "unknown"
	if c.Final >= 0 {
		f = fmt.Sprint(c.Final)
	}
	return fmt.Sprintf("%s %s seg=%d inits(store=%d,map=%d) [%d,%d) final=%s", c.Prog, mode, c.Seg, c.SInit, c.MInit, c.Start, c.Stop, f)
}

func program(c Case) *progs.Prog {
	switch c.Prog {
	case "sparse":
		// output = the sparse mapper itself: non-empty on one block out of four, skip_empty_output elsewhere
		p := progs.ClockSparse(c.MInit)
		p.Output = "sp"
		return p
	case "maponly":
		return progs.MapOnly(c.MInit)
	case "noinput":
		// output = a map that is not executed at all on three blocks out of four (its only input is skipped there)
		return progs.NoInput(c.MInit)
	}
	return progs.StoreMap(c.SInit, c.MInit)
}

func rows(ds []sysrun.DataMsg) string {
	var s []string
	for _, d := range ds {
		s = append(s, fmt.Sprintf("%d", d.Num))
	}
	return strings.Join(s, ",")
}

var resumptions, baseRuns, jobs int64

func Eval(c Case) (*core.Fail, bool) {
	p := program(c)
	atomic.AddInt64(&baseRuns, 1)
	dir := sysrun.Scratch("c04")
	defer removeAll(dir)
	head := c.Stop + 3
	chain := sysrun.LinearChain{Head: head, Final: head}
	var final uint64
	if c.Final >= 0 {
		final = uint64(c.Final)
		chain.Final = final
		if final > head {
			chain.Head = final
		}
	}
	if c.CleanEndAt != 0 {
		return evalCleanEnd(c, p, chain, final, dir)
	}
	if c.SinkPanicAt != 0 {
		return evalSinkPanic(c, p, chain, final, dir)
	}
	cfg := sysrun.Config{Modules: p.Modules, Output: p.Output, Prod: c.Prod, Seg: c.Seg, Start: int64(c.Start), Stop: c.Stop, Final: final, Dir: dir, Source: chain, Timeout: 10 * time.Second}
	r := sysrun.Run(cfg)
	desc := func() string { return c.String() }
	lowest := c.MInit
	if c.Prog == "storemap" && c.SInit < lowest {
		lowest = c.SInit
	}
	if c.Start < c.MInit {
		if r.Err == nil {
			return core.Failf("accepted-start-below-output-initial-block", "%s: no error", desc()), false
		}
		return nil, false
	}
	if r.Err != nil {
		if c.Prod && c.Final < 0 && c.Stop == 0 {
			return nil, false
		}
		key := "request-failed"
		if strings.Contains(r.Err.Error(), "context deadline exceeded") || strings.Contains(r.Err.Error(), "HANG") {
			key = "hang"
			// classify: production request that back-fills outputs while no store starts below the hand-off
			if r.Session != nil && c.Prod && c.Prog == "storemap" && c.SInit >= r.Session.LinearHandoffBlock && c.Start < r.Session.LinearHandoffBlock {
				key = "hang:outputs-back-filled-while-every-store-starts-at-or-above-the-hand-off"
			}
		}
		return core.Failf(key, "%s: %v", desc(), r.Err), false
	}
	atomic.AddInt64(&jobs, int64(len(r.Jobs)))
	if r.Session == nil {
		return core.Failf("no-session-init", "%s", desc()), false
	}
	H := r.Session.LinearHandoffBlock
	if r.AfterError != 0 {
		return core.Failf("data-after-error", "%s", desc()), false
	}
	// range, order, duplicates
	var prev int64 = -1
	seen := map[uint64]bool{}
	for i, d := range r.Data {
		if d.Num < c.Start || d.Num >= c.Stop {
			return core.Failf("block-outside-range", "%s: message %d carries block %d (stream %s)", desc(), i, d.Num, rows(r.Data)), true
		}
		if seen[d.Num] {
			return core.Failf("duplicate-block", "%s: block %d delivered twice (stream %s, hand-off %d)", desc(), d.Num, rows(r.Data), H), true
		}
		seen[d.Num] = true
		if int64(d.Num) <= prev {
			return core.Failf("out-of-order", "%s: block %d after %d (stream %s)", desc(), d.Num, prev, rows(r.Data)), true
		}
		prev = int64(d.Num)
		cur, err := bstream.CursorFromOpaque(d.Cursor)
		if err != nil || cur.Block.Num() != d.Num || cur.Block.ID() != d.ID {
			return core.Failf("cursor-does-not-designate-its-block", "%s: block %d (%s) has cursor %v (%v)", desc(), d.Num, d.ID, cur, err), true
		}
		if d.ID != sysrun.BlockID(d.Num) {
			return core.Failf("wrong-block-id", "%s: block %d has id %s", desc(), d.Num, d.ID), true
		}
	}
	// gaps: every block from the hand-off on (and every block in development mode, and every block at all when the
	// output is never empty) is delivered
	neverEmpty := c.Prog != "sparse" && c.Prog != "noinput"
	from := c.Start
	if c.Prod && !neverEmpty && H > from {
		from = H
	}
	for n := from; n < c.Stop; n++ {
		if !seen[n] {
			return core.Failf("missing-block", "%s: block %d not delivered (hand-off %d, stream %s)", desc(), n, H, rows(r.Data)), true
		}
	}
	crossesHandoff := c.Start < H && H < c.Stop
	// resumption from the cursor of every delivered final block
	for i, d := range r.Data {
		if c.ResumeAt != nil && *c.ResumeAt != i {
			continue
		}
		cur, _ := bstream.CursorFromOpaque(d.Cursor)
		if !cur.IsOnFinalBlock() {
			continue
		}
		if i == len(r.Data)-1 {
			continue // resuming from the last message asks for [stop, stop): rejected as an empty range by design
		}
		atomic.AddInt64(&resumptions, 1)
		cfg2 := cfg
		cfg2.Cursor = d.Cursor
		cfg2.Start = 0
		r2 := sysrun.Run(cfg2)
		if r2.Err != nil {
			return core.Failf("resume-failed", "%s: resuming after block %d: %v", desc(), d.Num, r2.Err), true
		}
		H2 := H
		if r2.Session != nil && r2.Session.LinearHandoffBlock > H2 {
			H2 = r2.Session.LinearHandoffBlock
		}
		want := filterEmptyBelow(r.Data[i+1:], H2, c.Prod)
		got := filterEmptyBelow(r2.Data, H2, c.Prod)
		if len(want) != len(got) {
			return core.Failf("resume-differs", "%s: resuming after block %d gives blocks %s, the original continued with %s", desc(), d.Num, rows(got), rows(want)), true
		}
		for k := range want {
			if want[k].Num != got[k].Num || want[k].ID != got[k].ID || want[k].Payload != got[k].Payload {
				return core.Failf("resume-differs", "%s: resuming after block %d: message %d is (%d,%q), original (%d,%q)", desc(), d.Num, k, got[k].Num, got[k].Payload, want[k].Num, want[k].Payload), true
			}
		}
	}
	emptyInLinear := !neverEmpty && H < c.Stop
	return nil, crossesHandoff || emptyInLinear
}

// filterEmptyBelow drops empty-payload messages below the hand-off in production mode (back-filling may omit them).
// evalCleanEnd: the block source ends cleanly before the stop block. A request that returns without error must have
// delivered everything the fault-free request delivers; otherwise it must return an error (no silent truncation), and
// what it delivered before is a prefix of the fault-free stream.
func evalCleanEnd(c Case, p *progs.Prog, chain sysrun.LinearChain, final uint64, dir string) (*core.Fail, bool) {
	refDir := sysrun.Scratch("c04ref")
	defer removeAll(refDir)
	ref := sysrun.Run(sysrun.Config{Modules: p.Modules, Output: p.Output, Prod: c.Prod, Seg: c.Seg, Start: int64(c.Start), Stop: c.Stop, Final: final, Dir: refDir, Source: chain, Timeout: 10 * time.Second})
	if ref.Err != nil {
		return nil, false // judged by the base case
	}
	chain.CleanEndAt, chain.CleanEndTier2 = c.CleanEndAt, c.CleanEndTier2
	r := sysrun.Run(sysrun.Config{Modules: p.Modules, Output: p.Output, Prod: c.Prod, Seg: c.Seg, Start: int64(c.Start), Stop: c.Stop, Final: final, Dir: dir, Source: chain, Timeout: 10 * time.Second})
	where := "tier1 stream"
	if c.CleanEndTier2 {
		where = "segment job"
	}
	desc := fmt.Sprintf("%s, block source of the %s shuts down cleanly after block %d", c.String(), where, c.CleanEndAt)
	if r.Err != nil && (strings.Contains(r.Err.Error(), "context deadline exceeded") || strings.Contains(r.Err.Error(), "HANG")) {
		return core.Failf("hang:block-source-ended-early", "%s: %v", desc, r.Err), true
	}
	got, want := rows(r.Data), rows(ref.Data)
	if r.Err == nil {
		if got != want {
			return core.Failf("silently-truncated-stream", "%s: the request succeeded with\n    %s\n  the fault-free request delivers\n    %s", desc, got, want), true
		}
		return nil, false // the early end was never reached (the source is not read that far)
	}
	if len(r.Data) > len(ref.Data) {
		return core.Failf("delivered-before-the-error-is-not-a-prefix", "%s: delivered %s then %v; fault-free %s", desc, got, r.Err, want), true
	}
	for i, d := range r.Data {
		if d.Num != ref.Data[i].Num || d.Payload != ref.Data[i].Payload {
			return core.Failf("delivered-before-the-error-is-not-a-prefix", "%s: delivered %s then %v; fault-free %s", desc, got, r.Err, want), true
		}
	}
	// the failed request must not have left a file that claims more than was computed: the same request on the same
	// cache, with a healthy block source, delivers the fault-free stream
	chain.CleanEndAt, chain.CleanEndTier2 = 0, false
	again := sysrun.Run(sysrun.Config{Modules: p.Modules, Output: p.Output, Prod: c.Prod, Seg: c.Seg, Start: int64(c.Start), Stop: c.Stop, Final: final, Dir: dir, Source: chain, Timeout: 10 * time.Second})
	if again.Err != nil {
		return core.Failf("request-after-early-end-fails", "%s; the same request afterwards on the same cache: %v", desc, again.Err), true
	}
	if g := rowsWithPayload(filterEmptyBelowAll(again.Data)); g != rowsWithPayload(filterEmptyBelowAll(ref.Data)) {
		return core.Failf("cache-corrupted-by-early-end", "%s; the same request afterwards on the same cache delivers\n    %s\n  the fault-free request delivers\n    %s", desc, g, rowsWithPayload(filterEmptyBelowAll(ref.Data))), true
	}
	return nil, true
}

// filterEmptyBelowAll drops empty-payload messages (a request served from a warm cache may omit them below its hand-off).
func filterEmptyBelowAll(ds []sysrun.DataMsg) []sysrun.DataMsg {
	var out []sysrun.DataMsg
	for _, d := range ds {
		if d.Payload != "" {
			out = append(out, d)
		}
	}
	return out
}

func rowsWithPayload(ds []sysrun.DataMsg) string {
	var s []string
	for _, d := range ds {
		s = append(s, fmt.Sprintf("%d=%q", d.Num, d.Payload))
	}
	return strings.Join(s, ",")
}

// evalSinkPanic: the response sink panics on one block. The request must return an error, and what was delivered is the
// fault-free stream up to (excluding) that block: the block is not skipped with the stream going on.
func evalSinkPanic(c Case, p *progs.Prog, chain sysrun.LinearChain, final uint64, dir string) (*core.Fail, bool) {
	refDir := sysrun.Scratch("c04ref")
	defer removeAll(refDir)
	ref := sysrun.Run(sysrun.Config{Modules: p.Modules, Output: p.Output, Prod: c.Prod, Seg: c.Seg, Start: int64(c.Start), Stop: c.Stop, Final: final, Dir: refDir, Source: chain, Timeout: 10 * time.Second})
	if ref.Err != nil || ref.Session == nil {
		return nil, false
	}
	if c.SinkPanicAt < ref.Session.LinearHandoffBlock {
		// blocks below the hand-off are written by the cached-output walker, on a goroutine of the scheduler's loop that has
		// no recover: a panicking sink there takes the process down (no request-level behaviour to judge)
		return nil, false
	}
	r := sysrun.Run(sysrun.Config{Modules: p.Modules, Output: p.Output, Prod: c.Prod, Seg: c.Seg, Start: int64(c.Start), Stop: c.Stop, Final: final, Dir: dir, Source: chain, Timeout: 10 * time.Second, PanicOnBlock: c.SinkPanicAt})
	desc := fmt.Sprintf("%s, the response sink panics while block %d is written", c.String(), c.SinkPanicAt)
	if !r.SinkPanicked {
		return nil, false // that block is not delivered by this request
	}
	if r.Err != nil && (strings.Contains(r.Err.Error(), "context deadline exceeded") || strings.Contains(r.Err.Error(), "HANG")) {
		return core.Failf("hang:sink-panicked", "%s: %v", desc, r.Err), true
	}
	if r.Err == nil {
		return core.Failf("sink-failure-swallowed", "%s: the request succeeded; delivered %s, fault-free %s", desc, rows(r.Data), rows(ref.Data)), true
	}
	for i, d := range r.Data {
		if i >= len(ref.Data) || d.Num != ref.Data[i].Num || d.Num >= c.SinkPanicAt {
			return core.Failf("delivered-around-the-failed-block", "%s: delivered %s then %v; fault-free %s", desc, rows(r.Data), r.Err, rows(ref.Data)), true
		}
	}
	if r.AfterError > 0 {
		return core.Failf("delivered-after-the-error", "%s: %d messages after the request returned", desc, r.AfterError), true
	}
	return nil, true
}

func filterEmptyBelow(ds []sysrun.DataMsg, handoff uint64, prod bool) []sysrun.DataMsg {
	if !prod {
		return ds
	}
	var out []sysrun.DataMsg
	for _, d := range ds {
		if d.Payload == "" && d.Num < handoff {
			continue
		}
		out = append(out, d)
	}
	return out
}

func uniq(in []uint64) []uint64 {
	seen := map[uint64]bool{}
	var out []uint64
	for _, v := range in {
		if !seen[v] {
			seen[v] = true
			out = append(out, v)
		}
	}
	return out
}

func Run(ctx *core.Ctx) int {
	ctx.Level = "exploration"
	ctx.Parallel = 48
	defer sysrun.CleanupAll()
	if ctx.Replay != "" {
		return core.RunReplay(ctx, Eval)
	}
	segs := []uint64{2, 3, 5}
	if ctx.Thorough() {
		segs = []uint64{2, 3, 4, 5, 7}
	}
	st := core.ParallelEnum(ctx, func(emit func(Case) bool) {
		for _, seg := range segs {
			inits := uniq([]uint64{1, seg - 1, seg, seg + 2})
			for _, prog := range []string{"storemap", "sparse", "maponly", "noinput"} {
				for _, prod := range []bool{false, true} {
					for _, mi := range inits {
						sinits := []uint64{mi}
						if prog == "storemap" {
							sinits = inits
						}
						for _, si := range sinits {

							starts := uniq([]uint64{mi, mi + 1, seg, seg + 1, 2 * seg, 2*seg + 1, mi - 1})
							if ctx.Thorough() {
								starts = uniq(append(starts, 3*seg, 3*seg-1, mi+seg))
							}
							for _, start := range starts {
								stops := uniq([]uint64{start + 1, start + seg, start + 2*seg + 1})
								for _, stop := range stops {
									finals := []int64{-1, int64(start) - 1, int64(start+stop) / 2, int64(stop) + 2}
									for _, f := range finals {
										if f < -1 || (f == -1 && prod && stop == 0) {
											continue
										}
										if !emit(Case{Prog: prog, Prod: prod, Seg: seg, SInit: si, MInit: mi, Start: start, Stop: stop, Final: f}) {
											return
										}
									}
								}
							}
						}
					}
				}
			}
		}
	}, Eval)
	// clean early end of the block source at every block of a few requests, in tier1's stream and in the segment jobs
	ce := core.ParallelEnum(ctx, func(emit func(Case) bool) {
		for _, b := range []Case{
			{Prog: "storemap", Prod: true, Seg: 3, SInit: 1, MInit: 2, Start: 4, Stop: 11, Final: 8},
			{Prog: "storemap", Prod: false, Seg: 3, SInit: 1, MInit: 2, Start: 7, Stop: 12, Final: 6},
			{Prog: "maponly", Prod: true, Seg: 2, SInit: 1, MInit: 1, Start: 3, Stop: 8, Final: 6},
			{Prog: "sparse", Prod: false, Seg: 2, SInit: 1, MInit: 1, Start: 3, Stop: 8, Final: -1},
		} {
			for n := b.Start; n < b.Stop; n++ {
				v := b
				v.SinkPanicAt = n
				if !emit(v) {
					return
				}
			}
			for n := uint64(1); n < b.Stop; n++ {
				for _, t2 := range []bool{false, true} {
					v := b
					v.CleanEndAt, v.CleanEndTier2 = n, t2
					if !emit(v) {
						return
					}
				}
			}
		}
	}, Eval)
	st.Evaluations += ce.Evaluations
	st.NonTrivial += ce.NonTrivial
	ctx.Sample(Case{Prog: "storemap", Prod: true, Seg: 5, SInit: 4, MInit: 5, Start: 6, Stop: 17, Final: 11})
	ctx.Sample(Case{Prog: "sparse", Prod: false, Seg: 2, MInit: 1, Start: 3, Stop: 8, Final: -1})
	ctx.Cov["evaluations"] = st.Evaluations
	ctx.Cov["distinct_nontrivial"] = st.NonTrivial
	ctx.Cov["exhaustive"] = true
	ctx.Cov["base_runs"] = baseRuns
	ctx.Cov["resumption_runs"] = resumptions
	ctx.Cov["tier2_jobs_executed"] = jobs
	ctx.Cov["rule"] = fmt.Sprintf("whole-system requests (real tier1 + in-process tier2, scripted modules): mode x segment size %v x module initial blocks {1,seg-1,seg,seg+2} x start {init-1,init,init+1,seg,seg+1,2seg,2seg+1} x stop {start+1,start+seg,start+2seg+1} x final block {unknown, below start, inside, above stop} on four programs (store->map with a never-empty output, a graph whose output is empty on most blocks, a map-only graph, a map that is not executed on most blocks because its only input is skipped); blocks above the final block arrive as new, the others as new+irreversible. For every run and every delivered message whose cursor is on a final block, a second request with that cursor on the same cache. Non-trivial: the request crosses the hand-off or has empty-output blocks in its linear part. An evaluation is one base run with all its resumptions.", segs)
	ctx.Assume = []string{
		"fork-free chain; goroutine timing inside a request is not controlled (E2's dimension)",
		"a resumed stream is compared with the original suffix modulo empty-payload messages below the hand-off in production mode (C01 allows back-filling to omit them)",
		"resuming from the last message (empty range) is not attempted",
	}
	return ctx.Finish(core.JSONRecheck(ctx.Prop, Eval))
}
