package c04

import "os"

func removeAll(d string) { os.RemoveAll(d) }
