// Package c02: squashing per-segment partial stores equals sequential store execution.
package c02

import (
	"fmt"
	"strings"
	"sync"

	"github.com/streamingfast/substreams/storage/store"

	"verifharness/core"
	"verifharness/refmodel"
	"verifharness/storedrv"
)

type Case struct {
	Combo  refmodel.Combo  `json:"combo"`
	Blocks [][]refmodel.Op `json:"blocks"`
	Cut    *uint           `json:"cut,omitempty"`    // set in violation artefacts: the failing cut (bit i = boundary after block i)
	Reload *bool           `json:"reload,omitempty"` // failing variant
}

var envPool = sync.Pool{New: func() any { return storedrv.NewEnv() }}

type worker struct {
	env  *storedrv.Env
	cfgs map[string]*store.Config
}

var workerPool = sync.Pool{New: func() any { return &worker{env: storedrv.NewEnv(), cfgs: map[string]*store.Config{}} }}

func (w *worker) cfg(c refmodel.Combo) *store.Config {
	if cfg, ok := w.cfgs[c.String()]; ok {
		return cfg
	}
	cfg := storedrv.NewConfig(c, 10, storedrv.MemStore())
	w.cfgs[c.String()] = cfg
	return cfg
}

func fmtBlocks(bs [][]refmodel.Op) string {
	var s []string
	for _, b := range bs {
		s = append(s, storedrv.FmtOps(b))
	}
	return strings.Join(s, " | ")
}

func Eval(cs Case) (*core.Fail, bool) {
	w := workerPool.Get().(*worker)
	defer workerPool.Put(w)
	c := cs.Combo
	cfg := w.cfg(c)
	pol := c.Policy
	n := len(cs.Blocks)

	ref := refmodel.NewStore(c)
	for _, b := range cs.Blocks {
		ref.ApplyBlock(b)
	}
	seq, err := w.env.Sequential(cfg, c, cs.Blocks)
	if err != nil {
		return core.Failf(pol+":sequential-error", "%s %s: %v", c, fmtBlocks(cs.Blocks), err), false
	}
	seqContent, _, perr := storedrv.Content(seq, c)
	if perr != nil {
		return core.Failf(pol+":unparsable-value", "%s %s: %v", c, fmtBlocks(cs.Blocks), perr), false
	}
	if d := storedrv.DiffContent(seqContent, ref); d != "" {
		return core.Failf(pol+":sequential-differs-from-model", "%s %s: %s", c, fmtBlocks(cs.Blocks), d), false
	}
	nontrivial := false
	cuts := uint(1) << uint(n-1)
	for cut := uint(0); cut < cuts; cut++ {
		if cs.Cut != nil && *cs.Cut != cut {
			continue
		}
		if !nontrivial && isNontrivial(cs.Blocks, cut) {
			nontrivial = true
		}
		for _, reload := range []bool{false, true} {
			if cs.Reload != nil && *cs.Reload != reload {
				continue
			}
			merged, err := w.env.SquashChain(cfg, c, cs.Blocks, cut, reload, 10)
			if err != nil {
				return core.Failf(pol+":squash-error", "%s %s cut=%b reload=%v: %v", c, fmtBlocks(cs.Blocks), cut, reload, err), nontrivial
			}
			got, _, perr := storedrv.Content(merged, c)
			if perr != nil {
				return core.Failf(pol+":unparsable-merged-value", "%s %s cut=%b: %v", c, fmtBlocks(cs.Blocks), cut, perr), nontrivial
			}
			if d := storedrv.DiffContent(got, ref); d != "" {
				return core.Failf(pol+":merged-differs", "%s blocks %s segments %v reloadFull=%v: %s (sequential store: %s)", c, fmtBlocks(cs.Blocks), storedrv.Segments(n, cut), reload, d, ref.Dump()), nontrivial
			}
		}
	}
	return nil, nontrivial
}

// non-trivial: >= 2 segments and some key is touched in two different segments (or deleted by prefix in a later one)
func isNontrivial(blocks [][]refmodel.Op, cut uint) bool {
	segs := storedrv.Segments(len(blocks), cut)
	if len(segs) < 2 {
		return false
	}
	segOf := func(i int) int {
		for s, sg := range segs {
			if i >= sg[0] && i < sg[1] {
				return s
			}
		}
		return -1
	}
	for i, bi := range blocks {
		for j, bj := range blocks {
			if segOf(i) >= segOf(j) {
				continue
			}
			for _, a := range bi {
				for _, b := range bj {
					if a.T == "w" && b.T == "w" && a.K == b.K {
						return true
					}
					if a.T == "w" && b.T == "d" && strings.HasPrefix(a.K, b.K) {
						return true
					}
				}
			}
		}
	}
	return false
}

func Run(ctx *core.Ctx) int {
	ctx.Level = "exploration"
	if ctx.Replay != "" {
		return core.RunReplay(ctx, Eval)
	}
	combos := refmodel.CoreCombos()
	B := 4
	if ctx.Thorough() {
		combos = append(refmodel.AllCombos(), refmodel.Combo{Policy: "set_sum", VT: "bigfloat"})
		B = 5
	}
	if v, ok := ctx.Args["blocks"]; ok {
		fmt.Sscan(v, &B)
	}
	var chains int64
	st := core.ParallelEnum(ctx, func(emit func(Case) bool) {
		for _, c := range combos {
			// family 1: B blocks, one operation each (ordinal 0), 3 keys x 2 values + 3 delete_prefix
			alpha := refmodel.OpAlphabet(c, 2, []uint64{0})
			ok := seqs(alpha, B, func(seq []refmodel.Op) bool {
				blocks := make([][]refmodel.Op, len(seq))
				for i, o := range seq {
					blocks[i] = []refmodel.Op{o}
				}
				chains += int64(1<<uint(B-1)) * 2
				return emit(Case{Combo: c, Blocks: blocks})
			})
			if !ok {
				return
			}
			// family 2: 3 blocks, exactly one of them has two operations with ordinals (0,1) or (1,0); 3 keys x 1-2 values + deletes
			nv := 1
			if ctx.Thorough() {
				nv = 2
			}
			a1 := refmodel.OpAlphabet(c, nv, []uint64{0})
			for pos := 0; pos < 3; pos++ {
				for _, x := range a1 {
					for _, y := range a1 {
						for _, ords := range [][2]uint64{{0, 1}, {1, 0}, {0, 0}} {
							x2, y2 := x, y
							x2.O, y2.O = ords[0], ords[1]
							two := []refmodel.Op{x2, y2}
							for _, p := range a1 {
								for _, q := range a1 {
									blocks := [][]refmodel.Op{{p}, {q}}
									var bl [][]refmodel.Op
									bl = append(bl, blocks[:pos]...)
									bl = append(bl, two)
									bl = append(bl, blocks[pos:]...)
									chains += 4 * 2
									if !emit(Case{Combo: c, Blocks: bl}) {
										return
									}
								}
							}
						}
					}
				}
			}
		}
	}, Eval)
	c0 := combos[3]
	a0 := refmodel.OpAlphabet(c0, 2, []uint64{0})
	ctx.Sample(map[string]any{"combo": c0, "blocks": [][]refmodel.Op{{a0[0]}, {a0[6]}, {a0[1]}, {a0[2]}}, "cuts": "all 8", "variants": "merge chain with and without save+load of the full store between merges"})
	ctx.Cov["evaluations"] = st.Evaluations
	ctx.Cov["merge_chains"] = chains
	ctx.Cov["distinct_nontrivial"] = st.NonTrivial
	ctx.Cov["exhaustive"] = true
	ctx.Cov["combos"] = len(combos)
	ctx.Cov["rule"] = fmt.Sprintf("%d combos x (every sequence of %d one-operation blocks over 3 keys x 2 values + delete_prefix a/b/'' ; every 3-block sequence with one two-operation block in ordinal orders (0,1),(1,0),(0,0)) x every cut into consecutive segments x {full store kept in memory, full store saved+reloaded between merges}. An evaluation is one block sequence with all its cuts; non-trivial: some cut has >=2 segments and a key touched in two different segments or deleted by prefix in a later one.", len(combos), B)
	ctx.Assume = []string{
		"numeric alphabets are dyadic rationals of small magnitude (IEEE addition is not associative in general; a partial-sum merge of arbitrary floats legitimately differs in the last bit)",
		"typed comparison (numbers as numbers, set_sum tags stripped)",
		"snapshot files go through an in-memory dstore with the production extension and zstd compression",
	}
	return ctx.Finish(core.JSONRecheck(ctx.Prop, Eval))
}

func seqs(alpha []refmodel.Op, n int, emit func([]refmodel.Op) bool) bool {
	idx := make([]int, n)
	for {
		seq := make([]refmodel.Op, n)
		for i, j := range idx {
			seq[i] = alpha[j]
		}
		if !emit(seq) {
			return false
		}
		p := n - 1
		for p >= 0 {
			idx[p]++
			if idx[p] < len(alpha) {
				break
			}
			idx[p] = 0
			p--
		}
		if p < 0 {
			return true
		}
	}
}
