// Package c10: store snapshots round-trip through save/load and are found by block range.
package c10

import (
	"bytes"
	"context"
	"fmt"
	"io"
	"os"
	"sort"
	"strings"
	"sync"
	"sync/atomic"

	"github.com/streamingfast/dstore"
	"go.uber.org/zap"

	"github.com/streamingfast/substreams/block"
	"github.com/streamingfast/substreams/storage/store"

	"verifharness/core"
	"verifharness/refmodel"
	"verifharness/storedrv"
)

type KV struct {
	K []byte `json:"k"`
	V []byte `json:"v"`
}

type Case struct {
	Kind     string      `json:"kind"` // content | big | list
	Partial  bool        `json:"partial,omitempty"`
	Entries  []KV        `json:"entries,omitempty"`
	Prefixes []string    `json:"prefixes,omitempty"`
	Zstd     bool        `json:"zstd,omitempty"`
	N        int         `json:"n,omitempty"`    // big: entry count
	KLen     int         `json:"klen,omitempty"` // big: key length
	VLen     int         `json:"vlen,omitempty"`
	Files    [][3]uint64 `json:"files,omitempty"` // list: (start, end, partial?1:0)
	Below    uint64      `json:"below,omitempty"`
	// environment deviations: the object store fails the first FailWrites writes after consuming the body, and the first
	// FailReads reads after delivering half of the object (the save and load paths retry)
	// the squasher's order: the snapshot is handed to an asynchronous writer, the store is modified (same-size
	// overwrites) and saved again for the next boundary, and only then does the first writer run
	Deferred   bool `json:"deferred,omitempty"`
	FailWrites int  `json:"fail_writes,omitempty"`
	FailReads  int  `json:"fail_reads,omitempty"`
}

// flakyStore injects transient object-store failures.
type flakyStore struct {
	dstore.Store
	failWrites, failReads *int32
}

// SubStore: store.NewConfig works on sub-stores; they share the failure budget.
func (f *flakyStore) SubStore(p string) (dstore.Store, error) {
	s, err := f.Store.SubStore(p)
	if err != nil {
		return nil, err
	}
	return &flakyStore{Store: s, failWrites: f.failWrites, failReads: f.failReads}, nil
}

func (f *flakyStore) WriteObject(ctx context.Context, name string, r io.Reader) error {
	if atomic.AddInt32(f.failWrites, -1) >= 0 {
		io.Copy(io.Discard, r) // a real failure can come after the body was sent
		return fmt.Errorf("injected: connection reset while writing %s", name)
	}
	return f.Store.WriteObject(ctx, name, r)
}

type halfReader struct {
	io.ReadCloser
	left int
}

func (h *halfReader) Read(p []byte) (int, error) {
	if h.left <= 0 {
		return 0, fmt.Errorf("injected: connection reset while reading")
	}
	if len(p) > h.left {
		p = p[:h.left]
	}
	n, err := h.ReadCloser.Read(p)
	h.left -= n
	return n, err
}

func (f *flakyStore) OpenObject(ctx context.Context, name string) (io.ReadCloser, error) {
	r, err := f.Store.OpenObject(ctx, name)
	if err != nil {
		return nil, err
	}
	if atomic.AddInt32(f.failReads, -1) >= 0 {
		size, _ := f.Store.ObjectAttributes(ctx, name)
		half := 1
		if size != nil {
			half = int(size.Size / 2)
		}
		return &halfReader{ReadCloser: r, left: half}, nil
	}
	return r, nil
}

var combo = refmodel.Combo{Policy: "set", VT: "bytes"}

var envPool = sync.Pool{New: func() any { return storedrv.NewEnv() }}
var dirSeq int64

func scratch() string {
	base := os.Getenv("VERIF_SHM")
	if base == "" {
		base = "/dev/shm"
	}
	d := fmt.Sprintf("%s/verifx.c10.%d.%d", base, os.Getpid(), atomic.AddInt64(&dirSeq, 1))
	os.MkdirAll(d, 0o755)
	return d
}

func localStore(dir string) dstore.Store {
	s, err := dstore.NewStore("file://"+dir, "zst", "zstd", true)
	if err != nil {
		panic(err)
	}
	return s
}

func evalContent(cs Case) (*core.Fail, bool) {
	env := envPool.Get().(*storedrv.Env)
	defer envPool.Put(env)
	var ds dstore.Store
	if cs.Zstd {
		dir := scratch()
		defer os.RemoveAll(dir)
		ds = localStore(dir)
	} else {
		ds = storedrv.MemStore()
	}
	if cs.FailWrites > 0 || cs.FailReads > 0 {
		fw, fr := int32(cs.FailWrites), int32(cs.FailReads)
		ds = &flakyStore{Store: ds, failWrites: &fw, failReads: &fr}
		defer func() {
			if fw > 0 || fr > 0 {
				panic("harness: an injected object-store failure was never reached")
			}
		}()
	}
	cfg := storedrv.NewConfig(combo, 10, ds)
	var ops []refmodel.Op
	for _, e := range cs.Entries {
		ops = append(ops, refmodel.Op{T: "w", K: string(e.K), V: string(e.V), O: 0})
	}
	// prefixes are recorded with ordinal 0 *before* the writes so they delete nothing of the content (ordinal sort is stable)
	var pre []refmodel.Op
	for _, p := range cs.Prefixes {
		pre = append(pre, refmodel.Op{T: "d", K: p, O: 0})
	}
	desc := func() string {
		return fmt.Sprintf("partial=%v entries=%q prefixes=%q zstd=%v failed-writes=%d failed-reads=%d deferred-write=%v", cs.Partial, cs.Entries, cs.Prefixes, cs.Zstd, cs.FailWrites, cs.FailReads, cs.Deferred)
	}
	want := map[string][]byte{}
	var wantSize uint64
	for _, e := range cs.Entries {
		if old, ok := want[string(e.K)]; ok {
			wantSize -= uint64(len(old))
		} else {
			wantSize += uint64(len(e.K))
		}
		want[string(e.K)] = e.V
		wantSize += uint64(len(e.V))
	}
	var st store.Store
	var loaded store.Store
	var file *store.FileInfo
	if cs.Partial {
		p := cfg.NewPartialKV(20, zap.NewNop())
		if err := env.ApplyBlock(p, combo, append(pre, ops...)); err != nil {
			return core.Failf("content:write-error", "%s: %v", desc(), err), false
		}
		st = p
		loaded = cfg.NewPartialKV(20, zap.NewNop())
		file = store.NewPartialFileInfo("st", 20, 30)
	} else {
		f := cfg.NewFullKV(zap.NewNop())
		if err := env.ApplyBlock(f, combo, ops); err != nil {
			return core.Failf("content:write-error", "%s: %v", desc(), err), false
		}
		st = f
		loaded = cfg.NewFullKV(zap.NewNop())
		file = store.NewCompleteFileInfo("st", 10, 30)
	}
	fi, w, err := st.Save(30)
	if err == nil && cs.Deferred && !cs.Partial {
		var ops2 []refmodel.Op
		for _, e := range cs.Entries {
			ops2 = append(ops2, refmodel.Op{T: "w", K: string(e.K), V: strings.Repeat("Z", len(e.V)), O: 0})
		}
		if err2 := env.ApplyBlock(st, combo, ops2); err2 != nil {
			return core.Failf("content:write-error", "%s: second block: %v", desc(), err2), false
		}
		_, w2, err2 := st.Save(40)
		if err2 != nil {
			return core.Failf("content:save-error", "%s: second save: %v", desc(), err2), false
		}
		err = w.Write(env.Ctx) // the first snapshot reaches storage after the second one was marshalled
		if err == nil {
			err = w2.Write(env.Ctx)
		}
	} else if err == nil {
		err = w.Write(env.Ctx)
	}
	if err != nil {
		return core.Failf("content:save-error", "%s: %v", desc(), err), false
	}
	if fi.Filename != file.Filename || !fi.Range.Equals(file.Range) || fi.Partial != cs.Partial {
		return core.Failf("content:save-fileinfo", "%s: Save returned %s %s partial=%v", desc(), fi.Filename, fi.Range, fi.Partial), false
	}
	if err := loaded.Load(env.Ctx, file); err != nil {
		return core.Failf("content:load-error", "%s: %v", desc(), err), false
	}
	got := map[string][]byte{}
	var realSize uint64
	loaded.Iter(func(k string, v []byte) error { got[k] = v; realSize += uint64(len(k) + len(v)); return nil })
	if len(got) != len(want) {
		return core.Failf("content:keys-differ", "%s: loaded %d keys want %d", desc(), len(got), len(want)), false
	}
	for k, v := range want {
		gv, ok := got[k]
		if !ok || !bytes.Equal(gv, v) {
			return core.Failf("content:value-differs", "%s: key %q loaded %q (found=%v) want %q", desc(), k, gv, ok, v), false
		}
	}
	if loaded.SizeBytes() != wantSize || realSize != wantSize {
		return core.Failf("content:size-after-load", "%s: SizeBytes()=%d, sum over Iter=%d, want %d", desc(), loaded.SizeBytes(), realSize, wantSize), false
	}
	if loaded.Length() != uint64(len(want)) {
		return core.Failf("content:length", "%s: Length()=%d want %d", desc(), loaded.Length(), len(want)), false
	}
	if cs.Partial {
		gp := loaded.(*store.PartialKV).DeletedPrefixes
		wp := dedupe(cs.Prefixes)
		if fmt.Sprintf("%q", gp) != fmt.Sprintf("%q", wp) && !(len(gp) == 0 && len(wp) == 0) {
			return core.Failf("content:prefixes-differ", "%s: loaded prefixes %q want %q", desc(), gp, wp), false
		}
	}
	nontrivial := len(cs.Entries) >= 2
	for _, e := range cs.Entries {
		if len(e.V) == 0 {
			nontrivial = true
		}
		for _, b := range append(append([]byte{}, e.K...), e.V...) {
			if b >= 0x80 || b == 0 {
				nontrivial = true
			}
		}
	}
	return nil, nontrivial
}

func dedupe(in []string) []string {
	seen := map[string]bool{}
	var out []string
	for _, s := range in {
		if !seen[s] {
			seen[s] = true
			out = append(out, s)
		}
	}
	return out
}

func evalBig(cs Case) (*core.Fail, bool) {
	var entries []KV
	for i := 0; i < cs.N; i++ {
		k := []byte(fmt.Sprintf("%0*d", cs.KLen, i))
		v := bytes.Repeat([]byte{byte(i), 0x80}, (cs.VLen+1)/2)[:cs.VLen]
		entries = append(entries, KV{k, v})
	}
	f, _ := evalContent(Case{Kind: "content", Partial: cs.Partial, Entries: entries, Prefixes: cs.Prefixes, Zstd: cs.Zstd})
	if f != nil {
		f.What = fmt.Sprintf("big n=%d klen=%d vlen=%d: %.300s", cs.N, cs.KLen, cs.VLen, f.What)
	}
	return f, true
}

func evalList(cs Case) (*core.Fail, bool) {
	dir := scratch()
	defer os.RemoveAll(dir)
	ds := localStore(dir)
	cfg := storedrv.NewConfig(combo, 0, ds)
	sub, _ := ds.SubStore("hash/states")
	ctx := context.Background()
	type key struct {
		s, e    uint64
		partial bool
	}
	saved := map[key]bool{}
	for _, f := range cs.Files {
		r := block.NewRange(f[0], f[1])
		name := store.FullStateFileName(r)
		if f[2] == 1 {
			name = store.PartialFileName(r)
		}
		if err := sub.WriteObject(ctx, name, strings.NewReader("x")); err != nil {
			return core.Failf("harness:write", "%v", err), false
		}
		saved[key{f[0], f[1], f[2] == 1}] = true
	}
	files, err := cfg.ListSnapshotFiles(ctx, cs.Below)
	if err != nil {
		return core.Failf("list:error", "files %v below %d: %v", cs.Files, cs.Below, err), false
	}
	got := map[key]bool{}
	for _, fi := range files {
		k := key{fi.Range.StartBlock, fi.Range.ExclusiveEndBlock, fi.Partial}
		if !saved[k] {
			return core.Failf("list:not-a-saved-file", "files %v below %d: listed %s partial=%v (%s) which was never saved — name parsed to a wrong range or kind", cs.Files, cs.Below, fi.Range, fi.Partial, fi.Filename), false
		}
		if got[k] {
			return core.Failf("list:duplicate", "files %v below %d: %s listed twice", cs.Files, cs.Below, fi.Filename), false
		}
		got[k] = true
		// the name of the listed file must be the name generated for the parsed range and kind
		want := store.FullStateFileName(fi.Range)
		if fi.Partial {
			want = store.PartialFileName(fi.Range)
		}
		if strings.TrimSuffix(fi.Filename, ".zst") != want {
			return core.Failf("list:name-roundtrip", "listed %q parsed as %s partial=%v whose name is %q", fi.Filename, fi.Range, fi.Partial, want), false
		}
	}
	var missing []string
	both := [2]bool{}
	for k := range saved {
		if k.e <= cs.Below {
			both[0] = true
			if !got[k] {
				missing = append(missing, fmt.Sprintf("[%d,%d) partial=%v", k.s, k.e, k.partial))
			}
		} else {
			both[1] = true
		}
	}
	if len(missing) > 0 {
		sort.Strings(missing)
		return core.Failf("list:missing", "files %v below %d: snapshots ending at or below %d not listed: %v", cs.Files, cs.Below, cs.Below, missing), false
	}
	return nil, both[0] && both[1]
}

func Eval(cs Case) (*core.Fail, bool) {
	switch cs.Kind {
	case "content":
		return evalContent(cs)
	case "big":
		return evalBig(cs)
	case "list":
		return evalList(cs)
	}
	return core.Failf("harness:kind", "unknown kind %q", cs.Kind), false
}

var keyAlpha = [][]byte{{0x00}, {'a'}, {0x7f}, {0x80}, {0xfe}, {'a', 0x00}, {0x80, 0xfe}, {'a', 'a'}}
var valAlpha = [][]byte{{}, {0x00}, {0xff}, {'a'}, {'a', 'b'}, {0xff, 0x00}}
var prefixAlpha = []string{"", "a", "\x00", "ab"}

func Run(ctx *core.Ctx) int {
	ctx.Level = "exploration"
	if ctx.Replay != "" {
		return core.RunReplay(ctx, Eval)
	}
	boundary := []uint64{0, 1, 9, 10, 99, 1_000_000_000, 1 << 32, 9_999_999_999}
	maxEntries := 2
	if ctx.Thorough() {
		maxEntries = 3
	}
	var prefixLists [][]string
	prefixLists = append(prefixLists, nil)
	for _, a := range prefixAlpha {
		prefixLists = append(prefixLists, []string{a})
		for _, b := range prefixAlpha {
			if a != b {
				prefixLists = append(prefixLists, []string{a, b})
			}
		}
	}
	counts := map[string]int{}
	st := core.ParallelEnum(ctx, func(emit func(Case) bool) {
		// contents: every map of <= maxEntries entries over 8 keys x 6 values
		var rec func(from int, cur []KV) bool
		n := 0
		rec = func(from int, cur []KV) bool {
			cp := append([]KV{}, cur...)
			n++
			zstd := n%97 == 0 // a fixed 1-in-97 slice of the contents goes through the local store with zstd like production
			counts["content"]++
			if !emit(Case{Kind: "content", Entries: cp, Zstd: zstd}) {
				return false
			}
			if len(cp) > 0 {
				counts["content-deferred-write"]++
				if !emit(Case{Kind: "content", Entries: cp, Zstd: zstd, Deferred: true}) {
					return false
				}
			}
			for _, pl := range prefixLists {
				counts["content"]++
				if !emit(Case{Kind: "content", Partial: true, Entries: cp, Prefixes: pl, Zstd: zstd}) {
					return false
				}
			}
			// transient object-store failures on the way (<= 2 failed writes, <= 1 failed read): on the small contents
			if len(cur) <= 1 {
				for _, fw := range []int{0, 1, 2} {
					for _, fr := range []int{0, 1} {
						if fw+fr == 0 {
							continue
						}
						for _, partial := range []bool{false, true} {
							counts["content-with-store-failures"]++
							var pl []string
							if partial {
								pl = []string{"a"}
							}
							if !emit(Case{Kind: "content", Partial: partial, Entries: cp, Prefixes: pl, Zstd: len(cur) == 1 && fw == 1, FailWrites: fw, FailReads: fr}) {
								return false
							}
						}
					}
				}
			}
			if len(cur) == maxEntries {
				return true
			}
			for k := from; k < len(keyAlpha); k++ {
				for _, v := range valAlpha {
					if !rec(k+1, append(cur, KV{keyAlpha[k], v})) {
						return false
					}
				}
			}
			return true
		}
		if !rec(0, nil) {
			return
		}
		// boundary sizes
		for _, partial := range []bool{false, true} {
			for _, l := range []int{127, 128, 16383, 16384} {
				counts["big"] += 2
				emit(Case{Kind: "big", Partial: partial, N: 3, KLen: l, VLen: 1, Zstd: true})
				emit(Case{Kind: "big", Partial: partial, N: 3, KLen: 4, VLen: l, Zstd: true})
			}
			for _, n := range []int{1000, 5000} {
				counts["big"]++
				emit(Case{Kind: "big", Partial: partial, N: n, KLen: 6, VLen: 3, Zstd: true, Prefixes: []string{"a"}})
			}
		}
		// listing: every range start<end over the boundary set, both kinds, alone, x every below
		for i, s := range boundary {
			for _, e := range boundary[i+1:] {
				for kind := uint64(0); kind < 2; kind++ {
					for _, below := range append(boundary, 9_999_999_999+0) {
						counts["list"]++
						if !emit(Case{Kind: "list", Files: [][3]uint64{{s, e, kind}}, Below: below}) {
							return
						}
					}
				}
			}
		}
		// listing: every subset of 8 saved files (full + partial, overlapping ranges) x below over the boundary set
		pool := [][3]uint64{{0, 10, 0}, {0, 20, 0}, {0, 30, 0}, {10, 20, 1}, {20, 30, 1}, {5, 10, 1}, {0, 1 << 32, 0}, {30, 9_999_999_999, 1}}
		belows := []uint64{1, 9, 10, 11, 20, 21, 30, 99, 1 << 32, 9_999_999_999}
		for mask := 1; mask < 1<<len(pool); mask++ {
			var files [][3]uint64
			for i, f := range pool {
				if mask&(1<<i) != 0 {
					files = append(files, f)
				}
			}
			for _, b := range belows {
				counts["list"]++
				if !emit(Case{Kind: "list", Files: files, Below: b}) {
					return
				}
			}
		}
	}, Eval)
	ctx.Sample(Case{Kind: "content", Partial: true, Entries: []KV{{keyAlpha[0], valAlpha[0]}, {keyAlpha[6], valAlpha[5]}}, Prefixes: []string{"", "a"}})
	ctx.Sample(Case{Kind: "list", Files: [][3]uint64{{0, 10, 0}, {10, 20, 1}, {0, 1 << 32, 0}}, Below: 20})
	ctx.Cov["evaluations"] = st.Evaluations
	ctx.Cov["distinct_nontrivial"] = st.NonTrivial
	ctx.Cov["exhaustive"] = true
	ctx.Cov["by_kind"] = counts
	ctx.Cov["rule"] = fmt.Sprintf("contents: every map of <=%d entries over 8 binary keys (bytes 0x00,'a',0x7f,0x80,0xfe; never empty, never leading 0xFF: the write path rejects those) x 6 values (incl. empty, 0x00, 0xff) written through the host interface, as FullKV and as PartialKV with every ordered deleted-prefix list of <=2 over {'', a, 0x00, ab}; Save -> Load into a fresh object; keys, values, prefixes, SizeBytes==sum compared (1 in 97 through the local dstore with zstd, the rest in memory). Boundary sizes: key/value lengths 127/128/16383/16384, 1000 and 5000 entries. Names/listing: every (start<end) over {0,1,9,10,99,1e9,2^32,9999999999} x kind x below, and every non-empty subset of 8 saved files x 10 values of below, through Config.ListSnapshotFiles on a local dstore; listed => saved with the right range and kind (parse(name(range,kind)) round-trip), and every saved file ending <= below is listed. Non-trivial: >=2 entries, or an empty value, or a zero/high byte; listing: a saved file on each side of below.", maxEntries)
	ctx.Assume = []string{"block numbers up to 10 digits (the zero-padding width)", "files with a trace id in their name (legacy) are not generated"}
	return ctx.Finish(core.JSONRecheck(ctx.Prop, Eval))
}
