// Package c01: output is independent of execution strategy — parallel, cached or linear.
package c01

import (
	"fmt"
	"github.com/streamingfast/substreams/pipeline/exec"
	"os"
	"path/filepath"
	"strings"
	"sync/atomic"
	"time"

	"verifharness/core"
	"verifharness/progs"
	"verifharness/sysrun"
	"verifharness/sysx"
)

type Req struct {
	Prod   bool   `json:"prod"`
	Output string `json:"output,omitempty"` // "" = the program's default output
	Start  uint64 `json:"start"`
	Stop   uint64 `json:"stop"`
	Final  int64  `json:"final"`
	Mutant string `json:"mutant,omitempty"` // run a one-field mutation of the program instead (history only)
	// history only: after the request, a class of cache files is evicted: "snapshots" (every full store snapshot),
	// "last-snapshots" (the highest full snapshot of every store), "outputs" (every cached output file)
	Evict string `json:"evict,omitempty"`
}

func evict(dir, class string) {
	files := sysrun.ListFiles(dir)
	highest := map[string]string{} // module hash -> highest snapshot
	for _, f := range files {
		if strings.Contains(f, "/states/") && strings.Contains(f, ".kv") {
			parts := strings.Split(f, "/")
			if f > highest[parts[1]] {
				highest[parts[1]] = f
			}
		}
	}
	for _, f := range files {
		drop := false
		switch class {
		case "snapshots":
			drop = strings.Contains(f, "/states/") && strings.Contains(f, ".kv")
		case "last-snapshots":
			parts := strings.Split(f, "/")
			drop = len(parts) > 1 && highest[parts[1]] == f
		case "outputs":
			drop = strings.Contains(f, "/outputs/")
		}
		if drop {
			os.Remove(filepath.Join(dir, "test.store", f))
		}
	}
}

type Case struct {
	Prog    string `json:"prog"`
	Seg     uint64 `json:"seg"`
	History []Req  `json:"history"`
	Req     Req    `json:"request"`
}

func (c Case) String() string {
	return fmt.Sprintf("%s seg=%d history=%v request=%+v", c.Prog, c.Seg, c.History, c.Req)
}

var programs = map[string]func() *progs.Prog{
	"storemap-2-3":    func() *progs.Prog { return progs.StoreMap(2, 3) },
	"storemap-0-0":    func() *progs.Prog { return progs.StoreMap(0, 0) },
	"storemap-7-4":    func() *progs.Prog { return progs.StoreMap(7, 4) },
	"twostages-1-4-6": func() *progs.Prog { return progs.TwoStages(1, 4, 6) },
	"twostages-0-0-0": func() *progs.Prog { return progs.TwoStages(0, 0, 0) },
	"samestage-1-7-3": func() *progs.Prog { return progs.SameStage(1, 7, 3) },
	"samestage-6-2-9": func() *progs.Prog { return progs.SameStage(6, 2, 9) },
	"index":           func() *progs.Prog { return progs.Index() },
	"clocksparse-2":   func() *progs.Prog { return progs.ClockSparse(2) },
	"clocksparse-0":   func() *progs.Prog { return progs.ClockSparse(0) },
	"clocksparse2-2":  func() *progs.Prog { return progs.ClockSparse2(2) },
	"maponly-3":       func() *progs.Prog { return progs.MapOnly(3) },
	"policies":        func() *progs.Prog { return progs.Policies() },
	"emptymap-1":      func() *progs.Prog { return progs.EmptyMap(1) },
	"sinedeltas-1":    func() *progs.Prog { return progs.SineDeltas(1) },
	"chain-0":         func() *progs.Prog { return progs.Chain(0) },
	"index2":          func() *progs.Prog { return progs.Index2() },
}

var quickPrograms = []string{"storemap-2-3", "storemap-7-4", "sinedeltas-1", "samestage-6-2-9", "twostages-1-4-6", "samestage-1-7-3", "index", "clocksparse-2", "clocksparse2-2", "policies", "emptymap-1", "chain-0", "index2"}

var runs, jobs int64

func runReq(p *progs.Prog, seg uint64, rq Req, dir string) *sysrun.Result {
	out := rq.Output
	if out == "" {
		out = p.Output
	}
	head := rq.Stop + 3
	chain := sysrun.LinearChain{Head: head, Final: head}
	var final uint64
	if rq.Final >= 0 {
		final = uint64(rq.Final)
		chain.Final = final
		if final > head {
			chain.Head = final
		}
	}
	atomic.AddInt64(&runs, 1)
	r := sysrun.Run(sysrun.Config{Modules: p.Modules, Output: out, Prod: rq.Prod, Seg: seg, Start: int64(rq.Start), Stop: rq.Stop, Final: final, Dir: dir, Source: chain, Timeout: 10 * time.Second})
	atomic.AddInt64(&jobs, int64(len(r.Jobs)))
	return r
}

func Eval(c Case) (*core.Fail, bool) {
	mk := programs[c.Prog]
	if mk == nil {
		return core.Failf("harness:program", "unknown program %q", c.Prog), false
	}
	p := mk()
	dir := sysrun.Scratch("c01")
	defer os.RemoveAll(dir)
	usedCache := false
	for i, h := range c.History {
		hp := p
		if h.Mutant != "" {
			hp = mutate(p, h.Mutant)
			if _, err := exec.NewOutputModuleGraph(hp.Output, true, hp.Modules, 0); err != nil {
				return nil, false // the one-field mutation does not give a valid graph for this program: no such history
			}
		}
		r := runReq(hp, c.Seg, h, dir)
		if r.Err != nil {
			if sysx.KnownHangClass(r, h.Prod, h.Start, sysx.StoreInits(hp.Modules, hp.Output)) {
				return core.Failf(sysx.HangKey, "%s: history request %d: %v", c, i, r.Err), false
			}
			return core.Failf("history-request-failed", "%s: history request %d: %v", c, i, r.Err), false
		}
		if len(r.Jobs) > 0 {
			usedCache = true
		}
		if h.Evict != "" {
			evict(dir, h.Evict)
		}
	}
	out := c.Req.Output
	if out == "" {
		out = p.Output
	}
	ref, lowest, err := sysx.Reference(p.Modules, out, c.Req.Stop)
	if err != nil {
		return core.Failf("harness:reference", "%s: %v", c, err), false
	}
	r := runReq(p, c.Seg, c.Req, dir)
	if c.Req.Start < sysx.OutputInit(p.Modules, out) {
		if r.Err == nil {
			return core.Failf("accepted-start-below-output-initial-block", "%s", c), false
		}
		return nil, false
	}
	if r.Err != nil {
		if sysx.KnownHangClass(r, c.Req.Prod, c.Req.Start, sysx.StoreInits(p.Modules, out)) {
			return core.Failf(sysx.HangKey, "%s: %v", c, r.Err), false
		}
		if sysx.IsHang(r.Err) {
			return core.Failf("hang", "%s: %v", c, r.Err), false
		}
		return core.Failf("request-failed", "%s: %v", c, r.Err), false
	}
	got := sysx.NonEmpty(r.Data)
	H := r.Session.LinearHandoffBlock
	// (a) the linear reference run of the real system
	lin, err := sysx.Linear(p, out, lowest, c.Req.Stop)
	if err != nil {
		return core.Failf("linear-reference-run-failed", "%s: %v", c, err), false
	}
	if d := sysx.Diff(got, sysx.Restrict(lin, c.Req.Start, c.Req.Stop)); d != "" {
		return core.Failf("differs-from-linear-run", "%s (hand-off %d, %d tier2 jobs): %s\n    got      %s\n    linear   %s", c, H, len(r.Jobs), d, sysx.FmtRows(got), sysx.FmtRows(sysx.Restrict(lin, c.Req.Start, c.Req.Stop))), true
	}
	// (b) the reference interpreter
	if d := sysx.Diff(got, sysx.Restrict(ref, c.Req.Start, c.Req.Stop)); d != "" {
		return core.Failf("differs-from-reference-interpreter", "%s (hand-off %d): %s\n    got       %s\n    reference %s", c, H, d, sysx.FmtRows(got), sysx.FmtRows(sysx.Restrict(ref, c.Req.Start, c.Req.Stop))), true
	}
	// no duplicates, increasing, complete from the hand-off on
	seen := map[uint64]bool{}
	var prev int64 = -1
	for _, d := range r.Data {
		if seen[d.Num] || int64(d.Num) <= prev {
			return core.Failf("duplicate-or-out-of-order", "%s: block %d after %d", c, d.Num, prev), true
		}
		seen[d.Num] = true
		prev = int64(d.Num)
	}
	from := c.Req.Start
	if H > from {
		from = H
	}
	for n := from; n < c.Req.Stop; n++ {
		if !seen[n] {
			return core.Failf("block-missing-after-hand-off", "%s: block %d (hand-off %d)", c, n, H), true
		}
	}
	nontrivial := (len(r.Jobs) > 0 || usedCache) && len(got) > 0
	return nil, nontrivial
}

// mutate: one-field mutations of an ancestor module; the mutant must never share cache files with the original.
func mutate(p *progs.Prog, kind string) *progs.Prog {
	switch kind {
	case "store-body": // the first store writes different values
		return progs.Mutant(p, "store-body")
	case "store-init":
		return progs.Mutant(p, "store-init")
	}
	return p
}

func Run(ctx *core.Ctx) int {
	ctx.Level = "exploration"
	ctx.Parallel = 48
	defer sysrun.CleanupAll()
	if ctx.Replay != "" {
		return core.RunReplay(ctx, Eval)
	}
	names := quickPrograms
	segs := []uint64{2, 5}
	if ctx.Thorough() {
		names = nil
		for n := range programs {
			names = append(names, n)
		}
		segs = []uint64{2, 3, 5}
	}
	st := core.ParallelEnum(ctx, func(emit func(Case) bool) {
		for _, name := range names {
			for _, seg := range segs {
				// requests: (mode, start, stop, final)
				var reqs []Req
				for _, prod := range []bool{false, true} {
					for _, se := range [][2]uint64{{9, 9 + 2*seg + 1}, {2 * seg, 4*seg + 1}, {seg + 1, 3 * seg}, {12, 13}} {
						for _, f := range []int64{-1, int64(se[0]+se[1]) / 2, int64(se[0]) - 1} {
							reqs = append(reqs, Req{Prod: prod, Start: se[0], Stop: se[1], Final: f})
						}
					}
				}
				histories := [][]Req{
					nil,
					{{Prod: true, Start: 9, Stop: 9 + seg, Final: -1}},                                                            // same module, other range
					{{Prod: false, Start: 10, Stop: 12, Final: -1}, {Prod: true, Start: 9, Stop: 4 * seg, Final: 3 * int64(seg)}}, // dev then prod
					{{Prod: true, Start: 9, Stop: 9 + 2*seg, Final: -1, Mutant: "store-body"}},                                    // a mutated ancestor ran before on the same cache
					{{Prod: true, Start: 9, Stop: 9 + 2*seg, Final: -1, Mutant: "store-init"}},
				}
				if !ctx.Thorough() {
					histories = histories[:4]
				}
				// an earlier request over a shorter range, then a class of its files evicted from the cache
				for _, ev := range []string{"last-snapshots", "snapshots", "outputs"} {
					histories = append(histories, []Req{{Prod: true, Start: 9, Stop: 9 + 2*seg, Final: -1, Evict: ev}})
				}
				// another output module of the same graph ran before on the same cache
				for _, o := range programs[name]().Outputs {
					histories = append(histories, []Req{{Prod: true, Output: o, Start: 9, Stop: 4 * seg, Final: -1}})
					histories = append(histories, []Req{{Prod: true, Output: o, Start: 2 * seg, Stop: 3 * seg, Final: -1}})
				}
				for _, h := range histories {
					for _, rq := range reqs {
						if !emit(Case{Prog: name, Seg: seg, History: h, Req: rq}) {
							return
						}
					}
				}
			}
		}
	}, Eval)
	ctx.Sample(Case{Prog: "twostages-1-4-6", Seg: 5, History: []Req{{Prod: true, Start: 9, Stop: 14, Final: -1}}, Req: Req{Prod: true, Start: 10, Stop: 21, Final: 15}})
	ctx.Cov["evaluations"] = st.Evaluations
	ctx.Cov["distinct_nontrivial"] = st.NonTrivial
	ctx.Cov["whole_system_runs"] = runs
	ctx.Cov["tier2_jobs_executed"] = jobs
	ctx.Cov["programs"] = len(names)
	ctx.Cov["exhaustive"] = true
	ctx.Cov["rule"] = fmt.Sprintf("%d programs (store->map; two store stages with get and deltas inputs and delete_prefix; two stores in one stage with different initial blocks; block index + filtered map + filtered store; clock-only store + params-only map next to a sparse skip_empty_output mapper; min/set_sum/bigint policies) x segment size %v x {dev, prod} x 4 (start,stop) shapes x final block {unknown, inside, below start} x cache histories {empty; same module other range; dev then prod; a store-body mutant of the graph run first on the same cache (thorough: + a store-initial-block mutant); an earlier shorter request followed by the eviction of {the highest full snapshot of every store, every full snapshot, every cached output}}. Oracle: the non-empty (number,id,payload) sequence of the request equals (a) the linear reference run of the real system (dev mode from the lowest initial block, empty cache, no tier2 job) and (b) the reference interpreter; no duplicate, increasing, every block from the hand-off on present. Map payloads echo get_first/get_last/get_at/has and store deltas, so the values modules read from stores are compared. Non-trivial: tier2 jobs or cached files were used and a compared payload is non-empty.", len(names), segs)
	ctx.Assume = []string{
		"the schedule dimension (job completion order, worker count) is explored by the C05 explorer on the same programs; whole-system runs have one effective worker and uncontrolled goroutine timing",
		"fork-free chain (forks: C03)",
	}
	return ctx.Finish(core.JSONRecheck(ctx.Prop, Eval))
}
