// Package script: the scripted WASM runtime ("verif-script") and the reference interpreter for the same tiny language.
//
// A binary's *content* is a JSON Program: entry point -> module body. The body is a pure function of what substreams
// hands the module (clock, input payloads, store reads, params), written with a handful of expression forms. The
// runtime interprets the body calling the real host interface (wasm.Call.Do*); the reference interpreter evaluates the
// same body over refmodel stores and a plain data-flow loop, using no substreams execution code.
package script

import (
	"encoding/json"
	"fmt"
	"strconv"
	"strings"
)

type Program struct {
	Modules map[string]*Body `json:"modules"`
	// Salt only makes two otherwise identical programs hash differently.
	Salt string `json:"salt,omitempty"`
}

type Body struct {
	// store modules
	Ops []OpT `json:"ops,omitempty"`
	// map modules
	Emit      Expr `json:"emit,omitempty"`
	SkipEmpty bool `json:"skip_empty,omitempty"` // call skip_empty_output()
	// block-index modules
	Keys []KeyT `json:"keys,omitempty"`
	// deterministic failure at this block number (0 = never)
	FailAt uint64 `json:"fail_at,omitempty"`
	// the module makes a host call that fails when the execution context is cancelled, with an error that does not wrap
	// the context's (what an RPC extension answers: "rpc error: code = Canceled ...")
	CtxSensitive bool `json:"ctx_sensitive,omitempty"`
}

type OpT struct {
	If  Cond   `json:"if,omitempty"`
	T   string `json:"t"` // "w" write with the store's policy, "d" delete_prefix
	Key Expr   `json:"key"`
	Val Expr   `json:"val,omitempty"`
	Ord uint64 `json:"ord"`
}

type KeyT struct {
	If  Cond `json:"if,omitempty"`
	Key Expr `json:"key"`
}

// Expr: JSON array ["form", args...]; evaluates to a string.
//
//	["lit", s] | ["num"] | ["id"] | ["mod", k] | ["div", k] | ["in", name] | ["params"]
//	["get", storeIdx, "last"|"first"|"at", keyExpr, ord] (absent -> "~") | ["has", storeIdx, mode, keyExpr, ord] ("1"/"0")
//	["deltas", name] | ["cat", e...] | ["when", cond, expr]
type Expr []any

// Cond: ["true"] | ["eq", n] (num == n) | ["every", k, r] (num % k == r) | ["idsuffix", s] | ["nonempty", expr] | ["not", cond] | ["ge", n] (num >= n)
type Cond []any

func (p *Program) Marshal() []byte {
	b, err := json.Marshal(p)
	if err != nil {
		panic(err)
	}
	return b
}

func Parse(b []byte) (*Program, error) {
	p := &Program{}
	if err := json.Unmarshal(b, p); err != nil {
		return nil, fmt.Errorf("verif-script: binary is not a JSON program: %w", err)
	}
	return p, nil
}

// Env is what a module body can observe.
type Env interface {
	Num() uint64
	ID() string
	In(name string) ([]byte, bool) // payload of a map input / rendered source; false if skipped (nil)
	Params() string
	Get(storeIdx int, mode string, key string, ord uint64) ([]byte, bool)
	Has(storeIdx int, mode string, key string, ord uint64) bool
	Deltas(name string) string // canonical rendering of a store-deltas input
}

func num(v any) uint64 {
	switch x := v.(type) {
	case float64:
		return uint64(x)
	case int:
		return uint64(x)
	case uint64:
		return x
	case json.Number:
		n, _ := x.Int64()
		return uint64(n)
	}
	panic(fmt.Sprintf("verif-script: not a number: %v", v))
}

func toExpr(v any) Expr {
	switch x := v.(type) {
	case Expr:
		return x
	case []any:
		return Expr(x)
	}
	panic(fmt.Sprintf("verif-script: not an expression: %v", v))
}

func toCond(v any) Cond {
	switch x := v.(type) {
	case Cond:
		return x
	case []any:
		return Cond(x)
	}
	panic(fmt.Sprintf("verif-script: not a condition: %v", v))
}

func Eval(e Expr, env Env) string {
	if len(e) == 0 {
		return ""
	}
	switch e[0].(string) {
	case "lit":
		return e[1].(string)
	case "num":
		return strconv.FormatUint(env.Num(), 10)
	case "id":
		return env.ID()
	case "mod":
		return strconv.FormatUint(env.Num()%num(e[1]), 10)
	case "div":
		return strconv.FormatUint(env.Num()/num(e[1]), 10)
	case "in":
		b, _ := env.In(e[1].(string))
		return string(b)
	case "params":
		return env.Params()
	case "get":
		v, found := env.Get(int(num(e[1])), e[2].(string), Eval(toExpr(e[3]), env), num(e[4]))
		if !found {
			return "~"
		}
		return string(v)
	case "has":
		if env.Has(int(num(e[1])), e[2].(string), Eval(toExpr(e[3]), env), num(e[4])) {
			return "1"
		}
		return "0"
	case "deltas":
		return env.Deltas(e[1].(string))
	case "when": // ["when", cond, expr]: expr if cond holds, else ""
		if Test(toCond(e[1]), env) {
			return Eval(toExpr(e[2]), env)
		}
		return ""
	case "cat":
		var sb strings.Builder
		for _, x := range e[1:] {
			sb.WriteString(Eval(toExpr(x), env))
		}
		return sb.String()
	}
	panic(fmt.Sprintf("verif-script: unknown expression form %v", e[0]))
}

func Test(c Cond, env Env) bool {
	if len(c) == 0 {
		return true
	}
	switch c[0].(string) {
	case "true":
		return true
	case "every":
		return env.Num()%num(c[1]) == num(c[2])
	case "idsuffix":
		return strings.HasSuffix(env.ID(), c[1].(string))
	case "nonempty":
		return Eval(toExpr(c[1]), env) != ""
	case "not":
		return !Test(toCond(c[1]), env)
	case "ge":
		return env.Num() >= num(c[1])
	case "eq":
		return env.Num() == num(c[1])
	}
	panic(fmt.Sprintf("verif-script: unknown condition form %v", c[0]))
}

// helpers to write programs in Go
func Lit(s string) Expr   { return Expr{"lit", s} }
func Num() Expr           { return Expr{"num"} }
func ID() Expr            { return Expr{"id"} }
func Mod(k int) Expr      { return Expr{"mod", k} }
func Div(k int) Expr      { return Expr{"div", k} }
func In(name string) Expr { return Expr{"in", name} }
func Cat(es ...Expr) Expr {
	out := Expr{"cat"}
	for _, e := range es {
		out = append(out, []any(e))
	}
	return out
}
func Get(idx int, mode string, key Expr, ord int) Expr {
	return Expr{"get", idx, mode, []any(key), ord}
}
func Has(idx int, mode string, key Expr, ord int) Expr {
	return Expr{"has", idx, mode, []any(key), ord}
}
func Deltas(name string) Expr { return Expr{"deltas", name} }
func Every(k, r int) Cond     { return Cond{"every", k, r} }
func IDSuffix(s string) Cond  { return Cond{"idsuffix", s} }
func Not(c Cond) Cond         { return Cond{"not", []any(c)} }
func NonEmpty(e Expr) Cond    { return Cond{"nonempty", []any(e)} }
