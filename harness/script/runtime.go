package script

import (
	"context"
	"fmt"
	"strconv"
	"strings"
	"sync"

	"google.golang.org/protobuf/proto"

	pbindex "github.com/streamingfast/substreams/pb/sf/substreams/index/v1"
	pbsubstreams "github.com/streamingfast/substreams/pb/sf/substreams/v1"
	"github.com/streamingfast/substreams/wasm"
)

const RuntimeName = "verif-script"

var registerOnce sync.Once

// Register installs the scripted runtime under the name "verif-script" (select with SUBSTREAMS_WASM_RUNTIME).
func Register() {
	registerOnce.Do(func() {
		wasm.RegisterModuleFactory(RuntimeName, wasm.ModuleFactoryFunc(func(ctx context.Context, code []byte, codeType string, reg *wasm.Registry) (wasm.Module, error) {
			p, err := Parse(code)
			if err != nil {
				return nil, err
			}
			return &module{prog: p}, nil
		}))
	})
}

type module struct{ prog *Program }
type instance struct{}

func (instance) Cleanup(context.Context) error { return nil }
func (instance) Close(context.Context) error   { return nil }

func (m *module) NewInstance(ctx context.Context) (wasm.Instance, error) { return instance{}, nil }
func (m *module) Close(ctx context.Context) error                        { return nil }

// callEnv adapts a wasm.Call + argument values to Env.
type callEnv struct {
	call      *wasm.Call
	argValues map[string][]byte
	params    string
}

func (e *callEnv) Num() uint64 { return e.call.Clock.Number }
func (e *callEnv) ID() string  { return e.call.Clock.Id }
func (e *callEnv) In(name string) ([]byte, bool) {
	v, ok := e.argValues[name]
	if !ok || v == nil {
		return nil, false
	}
	return v, true
}
func (e *callEnv) Params() string { return e.params }
func (e *callEnv) Get(idx int, mode, key string, ord uint64) ([]byte, bool) {
	switch mode {
	case "first":
		return e.call.DoGetFirst(idx, key)
	case "last":
		return e.call.DoGetLast(idx, key)
	default:
		return e.call.DoGetAt(idx, ord, key)
	}
}
func (e *callEnv) Has(idx int, mode, key string, ord uint64) bool {
	switch mode {
	case "first":
		return e.call.DoHasFirst(idx, key)
	case "last":
		return e.call.DoHasLast(idx, key)
	default:
		return e.call.DoHasAt(idx, ord, key)
	}
}
func (e *callEnv) Deltas(name string) string {
	raw, ok := e.In(name)
	if !ok {
		return "<nil>"
	}
	d := &pbsubstreams.StoreDeltas{}
	if err := proto.Unmarshal(raw, d); err != nil {
		return "<undecodable>"
	}
	return RenderDeltas(d.StoreDeltas)
}

func RenderDeltas(ds []*pbsubstreams.StoreDelta) string {
	var parts []string
	for _, d := range ds {
		op := "?"
		switch d.Operation {
		case pbsubstreams.StoreDelta_CREATE:
			op = "C"
		case pbsubstreams.StoreDelta_UPDATE:
			op = "U"
		case pbsubstreams.StoreDelta_DELETE:
			op = "D"
		}
		parts = append(parts, fmt.Sprintf("%s:%s@%d:%s>%s", op, d.Key, d.Ordinal, d.OldValue, d.NewValue))
	}
	return strings.Join(parts, "|")
}

// StorePolicy is the per-call write function, chosen from the output store's policy and value type.
type storeWriter func(call *wasm.Call, ord uint64, key, val string)

func writerFor(policy pbsubstreams.Module_KindStore_UpdatePolicy, vt string) storeWriter {
	i64 := func(s string) int64 { n, _ := strconv.ParseInt(s, 10, 64); return n }
	f64 := func(s string) float64 { f, _ := strconv.ParseFloat(s, 64); return f }
	switch policy {
	case pbsubstreams.Module_KindStore_UPDATE_POLICY_SET:
		return func(c *wasm.Call, o uint64, k, v string) { c.DoSet(o, k, []byte(v)) }
	case pbsubstreams.Module_KindStore_UPDATE_POLICY_SET_IF_NOT_EXISTS:
		return func(c *wasm.Call, o uint64, k, v string) { c.DoSetIfNotExists(o, k, []byte(v)) }
	case pbsubstreams.Module_KindStore_UPDATE_POLICY_APPEND:
		return func(c *wasm.Call, o uint64, k, v string) { c.DoAppend(o, k, []byte(v)) }
	case pbsubstreams.Module_KindStore_UPDATE_POLICY_ADD:
		switch vt {
		case "int64":
			return func(c *wasm.Call, o uint64, k, v string) { c.DoAddInt64(o, k, i64(v)) }
		case "float64":
			return func(c *wasm.Call, o uint64, k, v string) { c.DoAddFloat64(o, k, f64(v)) }
		case "bigint":
			return func(c *wasm.Call, o uint64, k, v string) { c.DoAddBigInt(o, k, v) }
		default:
			return func(c *wasm.Call, o uint64, k, v string) { c.DoAddBigDecimal(o, k, v) }
		}
	case pbsubstreams.Module_KindStore_UPDATE_POLICY_MIN:
		switch vt {
		case "int64":
			return func(c *wasm.Call, o uint64, k, v string) { c.DoSetMinInt64(o, k, i64(v)) }
		case "float64":
			return func(c *wasm.Call, o uint64, k, v string) { c.DoSetMinFloat64(o, k, f64(v)) }
		case "bigint":
			return func(c *wasm.Call, o uint64, k, v string) { c.DoSetMinBigInt(o, k, v) }
		default:
			return func(c *wasm.Call, o uint64, k, v string) { c.DoSetMinBigDecimal(o, k, v) }
		}
	case pbsubstreams.Module_KindStore_UPDATE_POLICY_MAX:
		switch vt {
		case "int64":
			return func(c *wasm.Call, o uint64, k, v string) { c.DoSetMaxInt64(o, k, i64(v)) }
		case "float64":
			return func(c *wasm.Call, o uint64, k, v string) { c.DoSetMaxFloat64(o, k, f64(v)) }
		case "bigint":
			return func(c *wasm.Call, o uint64, k, v string) { c.DoSetMaxBigInt(o, k, v) }
		default:
			return func(c *wasm.Call, o uint64, k, v string) { c.DoSetMaxBigDecimal(o, k, v) }
		}
	case pbsubstreams.Module_KindStore_UPDATE_POLICY_SET_SUM:
		switch vt {
		case "int64":
			return func(c *wasm.Call, o uint64, k, v string) { c.DoSetSumInt64(o, k, v) }
		case "float64":
			return func(c *wasm.Call, o uint64, k, v string) { c.DoSetSumFloat64(o, k, v) }
		case "bigint":
			return func(c *wasm.Call, o uint64, k, v string) { c.DoSetSumBigInt(o, k, v) }
		default:
			return func(c *wasm.Call, o uint64, k, v string) { c.DoSetSumBigDecimal(o, k, v) }
		}
	}
	panic("verif-script: unsupported policy")
}

func (m *module) ExecuteNewCall(ctx context.Context, call *wasm.Call, cached wasm.Instance, arguments []wasm.Argument, argValues map[string][]byte) (out wasm.Instance, err error) {
	body := m.prog.Modules[call.Entrypoint]
	if body == nil {
		return instance{}, fmt.Errorf("could not find entrypoint function %q", call.Entrypoint)
	}
	// host functions panic on misuse exactly like the wasm runtimes' imports do; surface it as an execution error
	defer func() {
		if r := recover(); r != nil {
			err = fmt.Errorf("call: %v", r)
			out = instance{}
		}
	}()
	env := &callEnv{call: call, argValues: argValues}
	var writer storeWriter
	for _, a := range arguments {
		switch v := a.(type) {
		case *wasm.ParamsInput:
			env.params = string(v.Value())
		case *wasm.StoreWriterOutput:
			writer = writerFor(v.UpdatePolicy, v.ValueType)
		}
	}
	if body.CtxSensitive && ctx.Err() != nil {
		return instance{}, fmt.Errorf("host call failed: rpc error: code = Canceled desc = the request was cancelled while block %d was executing", call.Clock.Number)
	}
	if body.FailAt != 0 && call.Clock.Number == body.FailAt {
		call.SetPanicError(fmt.Sprintf("scripted failure at block %d", body.FailAt), "script", 1, 1)
		return instance{}, nil
	}
	switch {
	case writer != nil:
		for _, op := range body.Ops {
			if !Test(op.If, env) {
				continue
			}
			key := Eval(op.Key, env)
			if op.T == "d" {
				call.DoDeletePrefix(op.Ord, key)
			} else {
				writer(call, op.Ord, key, Eval(op.Val, env))
			}
		}
	case body.Keys != nil:
		keys := &pbindex.Keys{}
		for _, k := range body.Keys {
			if Test(k.If, env) {
				keys.Keys = append(keys.Keys, Eval(k.Key, env))
			}
		}
		raw, err := proto.Marshal(keys)
		if err != nil {
			return instance{}, err
		}
		call.SetReturnValue(raw)
	default:
		if body.SkipEmpty {
			call.SkipEmptyOutput()
		}
		call.SetReturnValue([]byte(Eval(body.Emit, env)))
	}
	return instance{}, nil
}
