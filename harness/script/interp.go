package script

import (
	"fmt"
	"sort"
	"strings"

	pbsubstreams "github.com/streamingfast/substreams/pb/sf/substreams/v1"

	"verifharness/refmodel"
)

// Reference interpreter: a plain sequential data-flow loop over the module graph, one block at a time, from each
// module's initial block. Uses refmodel stores; shares only the expression evaluator with the runtime.

type Blk struct {
	Num uint64
	ID  string
}

type BlockResult struct {
	Blk     Blk
	Payload map[string]string // map modules that produced a (non-skipped) output this block
	Ran     map[string]bool
	Failed  string // module that failed deterministically at this block ("" = none)
}

type Interp struct {
	mods   map[string]*pbsubstreams.Module
	order  []string
	prog   *Program
	Stores map[string]*refmodel.Store
}

var policyNames = map[pbsubstreams.Module_KindStore_UpdatePolicy]string{
	pbsubstreams.Module_KindStore_UPDATE_POLICY_SET:               "set",
	pbsubstreams.Module_KindStore_UPDATE_POLICY_SET_IF_NOT_EXISTS: "set_if_not_exists",
	pbsubstreams.Module_KindStore_UPDATE_POLICY_APPEND:            "append",
	pbsubstreams.Module_KindStore_UPDATE_POLICY_ADD:               "add",
	pbsubstreams.Module_KindStore_UPDATE_POLICY_MIN:               "min",
	pbsubstreams.Module_KindStore_UPDATE_POLICY_MAX:               "max",
	pbsubstreams.Module_KindStore_UPDATE_POLICY_SET_SUM:           "set_sum",
}

func NewInterp(modules *pbsubstreams.Modules, output string) (*Interp, error) {
	prog, err := Parse(modules.Binaries[0].Content)
	if err != nil {
		return nil, err
	}
	it := &Interp{mods: map[string]*pbsubstreams.Module{}, prog: prog, Stores: map[string]*refmodel.Store{}}
	for _, m := range modules.Modules {
		it.mods[m.Name] = m
	}
	// closure of the output in dependency order (DFS post-order)
	seen := map[string]bool{}
	var dfs func(n string)
	dfs = func(n string) {
		m := it.mods[n]
		if m == nil || seen[n] {
			return
		}
		seen[n] = true
		for _, in := range m.Inputs {
			if x := in.GetMap(); x != nil {
				dfs(x.ModuleName)
			}
			if x := in.GetStore(); x != nil {
				dfs(x.ModuleName)
			}
		}
		if m.BlockFilter != nil {
			dfs(m.BlockFilter.Module)
		}
		it.order = append(it.order, n)
	}
	dfs(output)
	for _, n := range it.order {
		if s := it.mods[n].GetKindStore(); s != nil {
			it.Stores[n] = refmodel.NewStore(refmodel.Combo{Policy: policyNames[s.UpdatePolicy], VT: s.ValueType})
		}
	}
	return it, nil
}

// InitOf: the initial block of module name.
func (it *Interp) InitOf(name string) uint64 { return it.mods[name].InitialBlock }

func (it *Interp) LowestInit() uint64 {
	low := ^uint64(0)
	for _, n := range it.order {
		if it.mods[n].GetKindBlockIndex() != nil {
			continue
		}
		if it.mods[n].InitialBlock < low {
			low = it.mods[n].InitialBlock
		}
	}
	return low
}

func renderVal(v *refmodel.Val) string {
	if v == nil {
		return ""
	}
	if v.N != nil {
		return v.N.RatString()
	}
	return string(v.B)
}

type refEnv struct {
	it     *Interp
	blk    Blk
	mod    *pbsubstreams.Module
	out    map[string]*string // outputs of this block (nil = skipped / not run)
	keys   map[string][]string
	stores []string // store-get inputs in order
}

func (e *refEnv) Num() uint64 { return e.blk.Num }
func (e *refEnv) ID() string  { return e.blk.ID }
func (e *refEnv) In(name string) ([]byte, bool) {
	if name == "sf.substreams.v1.Clock" || strings.HasSuffix(name, ".Block") {
		return []byte("src"), true
	}
	p := e.out[name]
	if p == nil {
		return nil, false
	}
	return []byte(*p), true
}
func (e *refEnv) Params() string {
	for _, in := range e.mod.Inputs {
		if p := in.GetParams(); p != nil {
			return p.Value
		}
	}
	return ""
}
func (e *refEnv) read(idx int, mode, key string, ord uint64) *refmodel.Val {
	st := e.it.Stores[e.stores[idx]]
	switch mode {
	case "first":
		return st.First(key)
	case "last":
		return st.Last(key)
	}
	return st.At(ord, key)
}
func (e *refEnv) Get(idx int, mode, key string, ord uint64) ([]byte, bool) {
	v := e.read(idx, mode, key, ord)
	if v == nil {
		return nil, false
	}
	return []byte(renderVal(v)), true
}
func (e *refEnv) Has(idx int, mode, key string, ord uint64) bool {
	return e.read(idx, mode, key, ord) != nil
}
func (e *refEnv) Deltas(name string) string {
	if e.out[name] == nil {
		return "<nil>"
	}
	return *e.out[name]
}

func renderChanges(chs []refmodel.Change) string {
	var parts []string
	for _, c := range chs {
		op := "U"
		if c.Before == nil {
			op = "C"
		}
		if c.After == nil {
			op = "D"
		}
		parts = append(parts, fmt.Sprintf("%s:%s@%d:%s>%s", op, c.Key, c.Ord, renderVal(c.Before), renderVal(c.After)))
	}
	return strings.Join(parts, "|")
}

// filterMatches: the reference only understands "k", "k1 || k2" and "k1 && k2" (the filter language itself is C15's).
func filterMatches(q string, keys []string) bool {
	has := func(k string) bool {
		for _, x := range keys {
			if x == k {
				return true
			}
		}
		return false
	}
	for _, alt := range strings.Split(q, " || ") {
		all := true
		for _, k := range strings.Split(alt, " && ") {
			if !has(strings.TrimSpace(k)) {
				all = false
			}
		}
		if all {
			return true
		}
	}
	return false
}

// Step executes one block through the graph.
func (it *Interp) Step(b Blk) BlockResult {
	res := BlockResult{Blk: b, Payload: map[string]string{}, Ran: map[string]bool{}}
	out := map[string]*string{}
	keys := map[string][]string{}
	for _, n := range it.order {
		m := it.mods[n]
		st := it.Stores[n]
		if st != nil {
			st.ApplyBlock(nil) // a new block: the previous block's record is gone (pipeline.resetStores)
		}
		if b.Num < m.InitialBlock {
			continue
		}
		if m.BlockFilter != nil {
			q, _ := m.BlockFilterQueryString()
			if !filterMatches(q, keys[m.BlockFilter.Module]) {
				continue
			}
		}
		// does the module run? (exec.canSkipExecution)
		env := &refEnv{it: it, blk: b, mod: m, out: out, keys: keys}
		values, nonNil, clockOnly := 0, false, false
		paramsOnly := len(m.Inputs) == 1 && m.Inputs[0].GetParams() != nil
		for _, in := range m.Inputs {
			switch x := in.Input.(type) {
			case *pbsubstreams.Module_Input_Source_:
				values++
				if x.Source.Type == "sf.substreams.v1.Clock" {
					clockOnly = true
				} else {
					nonNil = true
				}
			case *pbsubstreams.Module_Input_Map_:
				values++
				if out[x.Map.ModuleName] != nil {
					nonNil = true
				}
			case *pbsubstreams.Module_Input_Store_:
				if x.Store.Mode == pbsubstreams.Module_Input_Store_DELTAS {
					values++
					if out[x.Store.ModuleName] != nil {
						nonNil = true
					}
				} else {
					env.stores = append(env.stores, x.Store.ModuleName)
				}
			}
		}
		runs := paramsOnly || (clockOnly && values == 1) || nonNil
		if !runs {
			continue
		}
		body := it.prog.Modules[m.BinaryEntrypoint]
		if body == nil {
			body = &Body{}
		}
		if body.FailAt != 0 && body.FailAt == b.Num {
			res.Failed = n
			return res
		}
		res.Ran[n] = true
		switch {
		case st != nil:
			var ops []refmodel.Op
			for _, op := range body.Ops {
				if !Test(op.If, env) {
					continue
				}
				o := refmodel.Op{T: op.T, K: Eval(op.Key, env), O: op.Ord}
				if op.T != "d" {
					o.V = Eval(op.Val, env)
				}
				ops = append(ops, o)
			}
			st.ApplyBlock(ops)
			s := renderChanges(st.Changes)
			out[n] = &s
		case m.GetKindBlockIndex() != nil:
			var ks []string
			for _, k := range body.Keys {
				if Test(k.If, env) {
					ks = append(ks, Eval(k.Key, env))
				}
			}
			keys[n] = ks
			s := strings.Join(ks, ",")
			out[n] = &s
		default:
			p := Eval(body.Emit, env)
			if body.SkipEmpty && p == "" {
				continue // skipped output: downstream sees nothing
			}
			out[n] = &p
			res.Payload[n] = p
		}
	}
	return res
}

// StoreDump: sorted "k=v" of a reference store.
func (it *Interp) StoreDump(name string) string {
	st := it.Stores[name]
	if st == nil {
		return ""
	}
	var parts []string
	for _, k := range st.Keys() {
		parts = append(parts, k+"="+renderVal(st.KV[k]))
	}
	sort.Strings(parts)
	return strings.Join(parts, " ")
}
