#!/usr/bin/env python3
"""Prints one line per property from evidence/*.json (tier, evaluations / states / transitions, wall): the source of DESIGN.md B.5."""
import json, glob, os
for f in sorted(glob.glob(os.path.dirname(os.path.abspath(__file__)) + "/evidence/C*.json")):
    d = json.load(open(f)); c = d.get("coverage", {})
    parts = [d["property_id"], d.get("tier", "?")]
    for k in ("evaluations", "distinct_nontrivial", "states", "transitions", "whole_system_runs", "configurations"):
        if k in c: parts.append(f"{k}={c[k]}")
    parts.append(f"exhaustive={c.get('exhaustive')}")
    parts.append(f"wall={d.get('wall_s', 0):.0f}s")
    print(" ".join(str(p) for p in parts))
