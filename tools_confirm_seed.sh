#!/usr/bin/env bash
# Confirms a sub-agent's seeded change in its scratch worktree and copies it to /verif/seeded/<name>/.
# usage: tools_confirm_seed.sh <Cxx> [<name>]      (worktree /tmp/seed-<Cxx>, deliverables /tmp/seed-<Cxx>-out)
set -u
export GOFLAGS=-mod=mod GOPROXY=off GOSUMDB=off GOTOOLCHAIN=local
ID=$1; NAME=${2:-$1}
PFX=${SEED_PREFIX:-seed}; WT=/tmp/$PFX-$ID; OUT=/tmp/$PFX-$ID-out
[ -f $OUT/patch.diff ] && [ -f $OUT/meta.json ] || { echo "$ID: deliverables missing"; exit 1; }
cd $WT || exit 1
CMD=$(python3 -c "import json;print(json.load(open('$OUT/meta.json'))['demo']['command'])")
# 0. normalise the worktree: clean tree + patch + demo files
git checkout -q -- . ; 
python3 - "$OUT" "$WT" <<'PY'
import json,sys,shutil,os
out,wt=sys.argv[1:3]
m=json.load(open(out+'/meta.json'))
for src,dst in m['demo']['files'].items():
    os.makedirs(os.path.dirname(os.path.join(wt,dst)),exist_ok=True)
    shutil.copy(os.path.join(out,src), os.path.join(wt,dst))
PY
git apply $OUT/patch.diff || { echo "$ID: patch does not apply"; exit 1; }
go build ./... || { echo "$ID: does not build"; exit 1; }
# 1. demo fails with the change
bash -c "$CMD" > /tmp/$PFX-$ID-demo-with.log 2>&1; WITH=$?
# 2. existing suite passes with the change (demo files skipped by name)
DEMOS=$(python3 -c "import json;print(' '.join(json.load(open('$OUT/meta.json'))['demo']['files'].values()))")
for f in $DEMOS; do mv $f $f.off; done
go test -vet=off -count=1 $(go list ./... | grep -v '/info$') > /tmp/$PFX-$ID-suite.log 2>&1; SUITE=$?
for f in $DEMOS; do mv $f.off $f; done
# 3. demo passes without the change
git apply -R $OUT/patch.diff
bash -c "$CMD" > /tmp/$PFX-$ID-demo-without.log 2>&1; WITHOUT=$?
git apply $OUT/patch.diff
echo "$ID: demo_with_change_exit=$WITH demo_without_change_exit=$WITHOUT suite_with_change_exit=$SUITE"
if [ $WITH -ne 0 ] && [ $WITHOUT -eq 0 ] && [ $SUITE -eq 0 ]; then
  mkdir -p /verif/seeded/$NAME
  cp $OUT/patch.diff /verif/seeded/$NAME/
  for f in $(python3 -c "import json;print(' '.join(json.load(open('$OUT/meta.json'))['demo']['files'].keys()))"); do cp $OUT/$f /verif/seeded/$NAME/; done
  python3 - "$OUT" "$NAME" "$WITH" "$WITHOUT" "$SUITE" <<'PY'
import json,sys
out,name,w,wo,s=sys.argv[1:6]
m=json.load(open(out+'/meta.json'))
m['origin']='independent sub-agent (given only the property text and a scratch worktree)'
m['confirmed']={'demo_with_change_exit':int(w),'demo_without_change_exit':int(wo),'existing_suite_with_change_exit':int(s),'how':'tools_confirm_seed.sh in a scratch worktree: go build ./...; demo with the patch (fails); go test -vet=off ./... without ./info (passes); demo with the patch reversed (passes)'}
json.dump(m,open('/verif/seeded/%s/meta.json'%name,'w'),indent=1)
PY
  echo "$ID: CONFIRMED -> /verif/seeded/$NAME"
else
  echo "$ID: NOT confirmed (see /tmp/$PFX-$ID-*.log)"; tail -5 /tmp/$PFX-$ID-suite.log
fi
