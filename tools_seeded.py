#!/usr/bin/env python3
"""Runs the registered quick checks against the seeded changes kept under /verif/seeded/<id>/.
usage: tools_seeded.py [<seed id> ...] [--checks C05,C07] [--tier quick] [--worktree]
For each seed: git -C /repo apply patch.diff ; ./check <property> (plus --checks) ; git -C /repo checkout -- . (always).
--worktree: leave /repo alone (a long run is rebuilding from it): the patch is applied to a scratch git worktree of /repo's
HEAD under /tmp and the checks run with VERIF_REPO pointing at it; the worktree is removed afterwards.
Writes seeded/<id>/result.json: which checks reported a VIOLATION."""
import json, os, subprocess, sys, time
ROOT = "/verif"
def sh(cmd, **kw): return subprocess.run(cmd, shell=True, capture_output=True, text=True, **kw)
def main():
    args = sys.argv[1:]
    extra, tier, ids, wt = [], "quick", [], False
    i = 0
    while i < len(args):
        if args[i] == "--checks": extra = args[i+1].split(","); i += 2
        elif args[i] == "--tier": tier = args[i+1]; i += 2
        elif args[i] == "--worktree": wt = True; i += 1
        else: ids.append(args[i]); i += 1
    if not ids: ids = sorted(os.listdir(ROOT + "/seeded"))
    assert wt or sh("git -C /repo status --porcelain").stdout.strip() == "", "/repo must be clean"
    for sid in ids:
        d = f"{ROOT}/seeded/{sid}"
        meta = json.load(open(d + "/meta.json"))
        checks = [meta["property"]] + [c for c in extra if c != meta["property"]] + [c for c in meta.get("also_run", []) if c != meta["property"]]
        res = {"seed": sid, "tier": tier, "checks": {}}
        repo, env = "/repo", ""
        if wt:
            repo = f"/tmp/seedeval-{os.getpid()}"
            sh(f"git -C /repo worktree remove --force {repo}")
            r = sh(f"git -C /repo worktree add --detach {repo} HEAD")
            if r.returncode != 0:
                print(sid, "CANNOT CREATE WORKTREE", r.stderr[:300]); continue
            env = f"VERIF_REPO={repo} "
        r = sh(f"git -C {repo} apply {d}/patch.diff")
        if r.returncode != 0:
            print(sid, "PATCH DOES NOT APPLY", r.stderr[:300])
            if wt: sh(f"git -C /repo worktree remove --force {repo}")
            continue
        try:
            for c in checks:
                t0 = time.time()
                r = sh(f"cd {ROOT} && {env}./check {c} --tier {tier}")
                viol = [l for l in r.stdout.splitlines() if l.startswith("VIOLATION")]
                keys = [l.strip() for l in r.stdout.splitlines() if l.strip().startswith("key=")]
                res["checks"][c] = {"exit": r.returncode, "violations": len(viol), "keys": keys[:6], "wall_s": round(time.time()-t0, 1)}
                print(sid, c, "exit", r.returncode, "violations", len(viol), keys[:2])
        finally:
            if wt: sh(f"git -C /repo worktree remove --force {repo}")
            else: sh("git -C /repo checkout -- .")
            sh(f"find {ROOT}/violations -name '*.json' -delete")
            sh(f"git -C {ROOT} checkout -- evidence")
        res["detected_by"] = [c for c, v in res["checks"].items() if v["violations"] > 0]
        json.dump(res, open(d + "/result.json", "w"), indent=1)
    assert wt or sh("git -C /repo status --porcelain").stdout.strip() == "", "/repo left dirty!"
main()
